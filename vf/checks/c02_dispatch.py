"""C02 — Dispatch picks route, then sink/static by recency; 404/405/OPTIONS are exact.

A case is a plain-data *app description* (an interleaved list of add_route / add_sink /
add_static_route operations plus the sink_before_static_route constructor flag) and a list of
(path, method) requests.  The description is rendered twice — falcon.App (sync responders and
sinks, driven through vf.drivers.wsgi) and falcon.asgi.App (async responders and sinks, driven
through vf.drivers.asgi) — and every request is sent to both.  Every generated responder and sink
writes (who, kwargs) into the response header ``x-vf`` (a header, because HEAD responses lose their
body); static routes are identified by the bytes (for HEAD: the Content-Length) of per-route files
of pairwise different sizes.

The oracle is the reference dispatcher `Model` below, written from the property statement; route
matching is delegated to C01's reference walk (`RefRouter`), sink matching to ``re.match`` on the
prefix text, static matching to a two-line prefix rule.
"""
import atexit
import concurrent.futures
import json
import os
import re
import urllib.parse
import shutil
import tempfile

from hypothesis import strategies as st

import falcon
import falcon.asgi
from falcon.routing.util import SuffixedMethodNotFoundError

from vf.checks.c01_router import RefRouter
from vf.core import Info, Suite, Violation
from vf.drivers import asgi as A
from vf.drivers import wsgi as W

LEVEL = 'exploration'
RULE = (
    'a case = one generated app description (0-4 add_route with generated resource classes over the 22 HTTP/WebDAV '
    'methods + on_options + on_websocket + suffixed twins, 0-3 add_sink, 0-2 add_static_route, interleaved '
    'registration order, sink_before_static_route flag) rendered as falcon.App and falcon.asgi.App, plus 8-24 '
    '(path, method) requests sent to both; non-trivial = at least one request whose path is matched by >= 2 '
    'candidates (route+sink, route+static, sink+sink, sink+static, static+static) or whose expected outcome is a 405 '
    'or the automatic OPTIONS response; distinct = distinct case fingerprint'
)
ASSUMPTIONS = [
    'route matching is decided by C01\'s reference router (RefRouter) over a pool of 8 mutually compatible templates',
    'a sink prefix matches a path iff re.match(prefix, path) (documented: "matched starting at the beginning of the '
    'URI path"); a static route with prefix P matches iff the path starts with P + "/" (complete segment), or equals '
    'P when a fallback_filename is configured',
    'WEBSOCKET as the method of a plain HTTP request is rejected with 400 on every path (meta method), an unknown '
    'method token gives 400 only on a matched route and is passed to sinks / static routes otherwise',
    'a static route answers OPTIONS with 200 + "Allow: GET" (so individual static routes are not told apart for '
    'OPTIONS) and any other method by serving the file; a missing file without fallback is a 404, '
    'indistinguishable from "nothing matched"',
    'the method vocabulary (9 RFC 7231/5789 + 13 WebDAV + WEBSOCKET) is hard-coded here, FALCON_CUSTOM_HTTP_METHODS '
    'is not set',
    'responses are observed through the minimal WSGI/ASGI drivers; no middleware, default error serialisation',
]

# ------------------------------------------------------------------ vocabulary (from the RFCs, not from falcon)

HTTP_M = ['CONNECT', 'DELETE', 'GET', 'HEAD', 'OPTIONS', 'PATCH', 'POST', 'PUT', 'TRACE']
WEBDAV_M = ['CHECKIN', 'CHECKOUT', 'COPY', 'LOCK', 'MKCOL', 'MOVE', 'PROPFIND', 'PROPPATCH', 'REPORT',
            'UNCHECKIN', 'UNLOCK', 'UPDATE', 'VERSION-CONTROL']
META = 'WEBSOCKET'
# documented: extra methods may be configured for the process through the FALCON_CUSTOM_HTTP_METHODS environment variable
# (read when falcon is imported); they then behave like any other method: dispatched to on_<method>, listed in Allow
CUSTOM_M = sorted(set(m.strip().upper() for m in os.environ.get('FALCON_CUSTOM_HTTP_METHODS', '').split(',') if m.strip()))
KNOWN_M = frozenset(HTTP_M + WEBDAV_M + CUSTOM_M)  # the 22 real methods (+ the configured ones)
PLAIN_M = [m for m in HTTP_M + WEBDAV_M + CUSTOM_M if m != 'OPTIONS']  # 21
UNKNOWN = 'FROB'
REQ_METHODS = HTTP_M + WEBDAV_M + CUSTOM_M + [META, UNKNOWN]

TEMPLATES = ['/', '/a', '/a/{id:int}', '/a/{id:int}/f.txt', '/s/{x}', '/s/f.txt', '/b/{x}-{y}', '/{top}']

# (prefix text, passed as a compiled pattern?)
SINKS = [
    ('/', False),
    ('/a', False),
    (r'/a/(?P<id>\d+)', False),
    (r'/s(?P<rest>/.*)?', False),
    (r'/(?P<first>[ab])/(?P<second>[^/]+)', True),
    # character classes: a str pattern follows Python's str semantics (\\w and \\d match non-ASCII letters and digits)
    (r'/w/(?P<word>\w+)$', False),
    (r'/n(?P<num>\d+)', False),
    # a pre-compiled pattern keeps its flags
    (r'/ci/(?P<v>v\d+)', 'I'),
]
SINK_FLAGS = {'I': re.IGNORECASE}


def _sink_flags(compiled):
    return SINK_FLAGS.get(compiled, 0)


def _sink_def(p):
    """SINKS[p], or for p >= 100 the p-th of a family of generated prefixes (apps with hundreds of sinks)."""
    if p < 100:
        return SINKS[p]
    return ('/m/k%d' % p, False)


STATICS = ['/', '/a', '/s', '/a/1', '/s/']

PATHS = ['/', '/a', '/a/', '/a/1', '/a/12', '/a/1/f.txt', '/a/x', '/a/x/f.txt', '/s', '/s/f.txt', '/s/d/f.txt',
         '/sx', '/b/p-q', '/b/f.txt', '/f.txt', '/zz',
         # percent-encoded UTF-8: café, Cyrillic, an Arabic-Indic digit (the application sees the decoded path)
         '/w/caf%C3%A9', '/w/abc', '/w/%D0%BE%D1%82', '/n%D9%A3', '/n7',
         '/ci/v1', '/CI/V2', '/Ci/x',
         # longer than 512 characters as a whole, but the part below the static prefix '/s/' is within the limit
         '/s/' + 'x' * 510,
         # file names beyond any length a static route serves (it still CLAIMS the path: nothing of lower priority may run)
         '/s/' + 'x' * 513, '/a/' + 'y' * 700, '/s/d/' + 'z' * 70000,
         # below the generated sink family '/m/k<p>' (p = 100..)
         '/m/k100', '/m/k100/x', '/m/k250/y', '/m/k399', '/m/k1000', '/m/k99', '/m/k3990']

FALLBACK = 'fallback.txt'


def _norm_prefix(p):
    return p if p.endswith('/') else p + '/'


def _file_table():
    """Relative names served below some static prefix for some request path -> unique sizes."""
    rels = set()
    for path in PATHS:
        if not path.endswith('/f.txt'):
            continue
        for p in STATICS:
            np = _norm_prefix(p)
            if path.startswith(np):
                rels.add(path[len(np):])
    table = {}
    n = 0
    for k in (0, 1):
        for rel in sorted(rels) + [FALLBACK]:
            head = ('static-dir-%d:%s:' % (k, rel)).encode()
            table[(k, rel)] = head + b'.' * (64 + n - len(head))
            n += 1
    return frozenset(rels), table


FILES, CONTENT = _file_table()
assert len(set(len(v) for v in CONTENT.values())) == len(CONTENT)


# ------------------------------------------------------------------ reference dispatcher


class Model(object):
    """Reference dispatcher written from the property statement."""

    def __init__(self, case):
        self.sbs = case['sbs']
        self.router = RefRouter()
        self.routes = {}
        self.rejected = set()
        self.sinks = []
        self.statics = []
        for i, op in enumerate(case['ops']):
            if op['k'] == 'route':
                impl = op['m'] if op['suffix'] is None else (op['mx'] if op['suffix'] == 'x' else [])
                if op['suffix'] is not None and not impl:
                    self.rejected.add(i)  # documented: suffix that maps to no responder is an error
                    continue
                self.router.add(TEMPLATES[op['t']], i)
                self.routes[i] = (frozenset(impl), op['suffix'])
            elif op['k'] == 'sink':
                self.sinks.append((i, re.compile(_sink_def(op['p'])[0], _sink_flags(_sink_def(op['p'])[1]))))
            else:
                self.statics.append((i, len(self.statics), _norm_prefix(STATICS[op['p']]), op['fb']))

    def candidates(self, path):
        path = urllib.parse.unquote(path)  # dispatch works on the decoded path
        hit = self.router.find(path)
        sinks = []
        for i, rx in reversed(self.sinks):  # most recently added first
            m = rx.match(path)
            if m:
                sinks.append(('sink', i, m.groupdict()))
        statics = []
        for i, k, np, fb in reversed(self.statics):
            if path.startswith(np) or (fb and path == np[:-1]):
                rel = path[len(np):]
                name = rel if rel in FILES else (FALLBACK if fb else None)
                if len(rel) > 500 and fb:
                    name = 'LONG'  # whether the fallback file stands in for an over-long name is not documented
                statics.append(('static', i, k, name))
        return hit, sinks, statics

    def dispatch(self, method, path):
        if method == META:
            return ('status', 400)
        hit, sinks, statics = self.candidates(path)
        if hit is not None:
            _, i, params = hit
            impl, suffix = self.routes[i]
            if method in impl:
                return ('route', i, method, suffix, params)
            http = sorted(m for m in impl if m != META)
            if method == 'OPTIONS':
                return ('auto_options', http)
            if method in KNOWN_M:
                return ('405', sorted(set(http) | {'OPTIONS'}))
            return ('status', 400)
        order = sinks + statics if self.sbs else statics + sinks
        if order:
            return order[0]
        return ('status', 404)


# ------------------------------------------------------------------ rendering the description as falcon apps


def _responder(asgi, tag):
    if asgi:
        async def responder(self, req, resp, **kw):
            resp.set_header('x-vf', json.dumps(tag + [kw], sort_keys=True))
    else:
        def responder(self, req, resp, **kw):
            resp.set_header('x-vf', json.dumps(tag + [kw], sort_keys=True))
    return responder


def _sink(asgi, tag):
    if asgi:
        async def sink(req, resp, **kw):
            resp.set_header('x-vf', json.dumps(tag + [kw], sort_keys=True))
    else:
        def sink(req, resp, **kw):
            resp.set_header('x-vf', json.dumps(tag + [kw], sort_keys=True))
    return sink


class SharedResource(object):
    """One class, many instances: the responders are per-INSTANCE attributes (bound in the constructor, as an
    application would do for e.g. a read-only and a writable flavour of the same resource class)."""

    def __init__(self, responders):
        import types
        for name, fn in responders.items():
            setattr(self, name, types.MethodType(fn, self))


def make_resource(op, i, asgi):
    ns = {}
    for m in op['m']:
        ns['on_' + m.lower()] = _responder(asgi, ['route', i, m, None])
    for m in op['mx']:
        ns['on_' + m.lower() + '_x'] = _responder(asgi, ['route', i, m, 'x'])
    if op.get('falsy'):
        # a collection-style resource that is currently empty: bool(resource) is False; nothing in the documented
        # contract asks a resource to be truthy
        ns['__len__'] = lambda self: 0
    if op.get('inst'):
        if op.get('falsy'):
            return type('EmptyShared', (SharedResource,), {'__len__': ns.pop('__len__')})(ns)
        return SharedResource(ns)
    return type('Res%d' % i, (), ns)()


def build_app(case, asgi, dirs, model, after_op=None):
    cls = falcon.asgi.App if asgi else falcon.App
    app = cls(sink_before_static_route=case['sbs'])
    if case.get('reraise'):
        # an application-level handler that observes HTTP errors (logging, metrics) and raises them again: the 404 /
        # 405 / Allow answers must come out the same
        if asgi:
            async def observe(req, resp, ex, params):
                raise ex
        else:
            def observe(req, resp, ex, params):
                raise ex
        app.add_error_handler(falcon.HTTPError, observe)
    nstatic = 0
    for i, op in enumerate(case['ops']):
        if after_op is not None and i > 0:
            after_op(app, asgi, i - 1)
        if op['k'] == 'route':
            res = make_resource(op, i, asgi)
            kw = {} if op['suffix'] is None else {'suffix': op['suffix']}
            try:
                app.add_route(TEMPLATES[op['t']], res, **kw)
                raised = False
            except SuffixedMethodNotFoundError:
                raised = True
            if raised != (i in model.rejected):
                raise Violation(
                    'suffix_rejection',
                    '%s add_route(%r, <m=%r mx=%r>, suffix=%r): SuffixedMethodNotFoundError %s, expected %s'
                    % ('asgi' if asgi else 'wsgi', TEMPLATES[op['t']], op['m'], op['mx'], op['suffix'],
                       'raised' if raised else 'not raised', 'raised' if i in model.rejected else 'not raised'))
        elif op['k'] == 'sink':
            text, compiled = _sink_def(op['p'])
            app.add_sink(_sink(asgi, ['sink', i]), re.compile(text, _sink_flags(compiled)) if compiled else text)
        else:
            kw = {'fallback_filename': FALLBACK} if op['fb'] else {}
            app.add_static_route(STATICS[op['p']], dirs[nstatic], **kw)
            nstatic += 1
    return app


class Obs(object):
    __slots__ = ('code', 'who', 'allow', 'body', 'clen')

    def __init__(self, res):
        self.code = res.code
        who = res.header_list('x-vf')
        self.who = [json.loads(w) for w in who]
        allow = res.header_list('allow')
        self.allow = None if not allow else sorted(
            t.strip() for v in allow for t in v.split(',') if t.strip())
        self.body = res.body
        self.clen = res.header('content-length')

    def __repr__(self):
        return 'status=%r x-vf=%r allow=%r content-length=%r body=%r' % (
            self.code, self.who, self.allow, self.clen, self.body[:80])


def send(app, asgi, method, path):
    if asgi:
        res = A.call(app, A.build_scope(method=method, raw_path=path))
    else:
        res = W.call(app, W.build_environ(method=method, raw_path=path))
    if res.error is not None:
        raise res.error
    return Obs(res)


def conforms(exp, method, obs):
    """Does the observed response agree with the expected outcome?"""
    kind = exp[0]
    if kind == 'route':
        return obs.code == 200 and obs.who == [['route', exp[1], exp[2], exp[3], exp[4]]]
    if kind == 'sink':
        return obs.code == 200 and obs.who == [['sink', exp[1], exp[2]]]
    if obs.who:
        return False  # no generated responder / sink may have run
    if kind == 'static':
        name = exp[3]
        if method == 'OPTIONS':
            return obs.code == 200 and obs.allow == ['GET'] and obs.body == b''
        if name is None:
            return obs.code == 404
        if name == 'LONG':
            if obs.code == 404:
                return True
            name = FALLBACK
        data = CONTENT[(exp[2], name)]
        if method == 'HEAD':
            return obs.code == 200 and obs.body == b'' and obs.clen == str(len(data))
        return obs.code == 200 and obs.body == data
    if kind == 'auto_options':
        return obs.code == 200 and obs.allow == exp[1] and obs.body == b''
    if kind == '405':
        return obs.code == 405 and obs.allow == exp[1]
    return obs.code == exp[1]


def overlap_labels(hit, sinks, statics):
    out = []
    if hit is not None and sinks:
        out.append('overlap:route+sink')
    if hit is not None and statics:
        out.append('overlap:route+static')
    if len(sinks) >= 2:
        out.append('overlap:sink+sink')
    if sinks and statics:
        out.append('overlap:sink+static')
    if len(statics) >= 2:
        out.append('overlap:static+static')
    return out


def run_case(case, dirs):
    model = Model(case)
    labels = set()
    nontrivial = False
    checkpoints = set(case.get('interleave') or [])
    fired = [0]

    def after_op(app, asgi, i):
        # requests served while the app is still being assembled: the app as registered so far decides
        if i not in checkpoints:
            return
        partial = Model(dict(case, ops=case['ops'][:i + 1]))
        for pi, method in case['reqs'][:6]:
            path = PATHS[pi]
            exp = partial.dispatch(method, path)
            obs = send(app, asgi, method, path)
            fired[0] += 1
            if not conforms(exp, method, obs):
                raise Violation(
                    'dispatch_' + exp[0],
                    '%s %s %s after the first %d registrations: expected %r, got %r; app: sink_before_static_route=%r ops=%s'
                    % ('asgi' if asgi else 'wsgi', method, path, i + 1, exp, obs, case['sbs'],
                       describe(dict(case, ops=case['ops'][:i + 1]))))
    apps = [('wsgi', False, build_app(case, False, dirs, model, after_op if checkpoints else None)),
            ('asgi', True, build_app(case, True, dirs, model, after_op if checkpoints else None))]
    if fired[0]:
        labels.add('requests_between_registrations')
    if model.rejected:
        labels.add('suffix_rejected_at_add_route')
    if any(op['k'] == 'route' and op['suffix'] == 'x' and i not in model.rejected
           for i, op in enumerate(case['ops'])):
        labels.add('suffixed_route_registered')
    labels.add('sink_before_static=%s' % case['sbs'])
    if any(o.get('falsy') for o in case['ops']):
        labels.add('falsy_resource')
    if case.get('reraise'):
        labels.add('http_errors_observed_and_reraised')
    for pi, method in case['reqs']:
        path = PATHS[pi]
        exp = model.dispatch(method, path)
        hit, sinks, statics = model.candidates(path)
        ov = overlap_labels(hit, sinks, statics)
        labels.update(ov)
        if method != META:
            if ov or exp[0] in ('405', 'auto_options'):
                nontrivial = True
        lb = 'expect:' + (exp[0] if exp[0] != 'status' else str(exp[1]))
        if exp[0] == 'route':
            if exp[3]:
                lb += '(suffixed)'
            elif exp[2] == 'OPTIONS':
                lb = 'expect:user_on_options'
        if exp[0] == 'static' and exp[3] is None and method != 'OPTIONS':
            lb = 'expect:static(missing file)'
        labels.add(lb)
        if exp[0] in ('405', 'auto_options') and hit is not None and META in model.routes[hit[1]][0]:
            labels.add('allow_on_resource_with_on_websocket')
        if exp[0] in ('sink', 'route') and exp[-1]:
            labels.add('kwargs_nonempty')
        for stack, asgi, app in apps:
            obs = send(app, asgi, method, path)
            if not conforms(exp, method, obs):
                raise Violation(
                    'dispatch_' + exp[0],
                    '%s %s %s: expected %r, got %r; app: sink_before_static_route=%r ops=%s'
                    % (stack, method, path, exp, obs, case['sbs'], describe(case)))
    return Info(nontrivial, sorted(labels))


def describe(case):
    out = []
    for i, op in enumerate(case['ops']):
        if op['k'] == 'route':
            out.append('#%d add_route(%r, on_*=%r, on_*_x=%r, suffix=%r)'
                       % (i, TEMPLATES[op['t']], op['m'], op['mx'], op['suffix']))
        elif op['k'] == 'sink':
            text, compiled = _sink_def(op['p'])
            out.append('#%d add_sink(%s)' % (i, 're.compile(%r)' % text if compiled else repr(text)))
        else:
            out.append('#%d add_static_route(%r%s)' % (i, STATICS[op['p']], ', fallback' if op['fb'] else ''))
    return '[' + '; '.join(out) + ']'


# ------------------------------------------------------------------ suites


# One scratch directory per run, created by the process that imports this module (the runner, before it forks
# its workers) and removed when that process exits: workers that are terminated early (the first violation
# stops the pool) never reach teardown().
_RUN_DIR = tempfile.mkdtemp(prefix='vf-c02-run-', dir=os.environ.get('TMPDIR') or None)
_RUN_OWNER = os.getpid()


def _remove_run_dir():
    if os.getpid() == _RUN_OWNER:
        shutil.rmtree(_RUN_DIR, ignore_errors=True)


atexit.register(_remove_run_dir)


class _Base(Suite):
    dirs = None
    base = None
    executor = None

    def setup(self):
        os.makedirs(_RUN_DIR, exist_ok=True)
        self.base = tempfile.mkdtemp(prefix='w-', dir=_RUN_DIR)
        self.dirs = []
        for k in (0, 1):
            d = os.path.join(self.base, 'd%d' % k)
            for (kk, rel), data in CONTENT.items():
                if kk != k:
                    continue
                fn = os.path.join(d, rel)
                os.makedirs(os.path.dirname(fn), exist_ok=True)
                with open(fn, 'wb') as fh:
                    fh.write(data)
            self.dirs.append(d)
        # falcon.asgi reads static files through run_in_executor: private single thread, created after fork
        self.executor = concurrent.futures.ThreadPoolExecutor(max_workers=1, thread_name_prefix='vf-c02')
        A.loop().set_default_executor(self.executor)

    def teardown(self):
        if self.executor is not None:
            self.executor.shutdown(wait=True)
            self.executor = None
        if self.base is not None:
            shutil.rmtree(self.base, ignore_errors=True)
            self.base = None
            self.dirs = None

    def run(self, case):
        return run_case(case, self.dirs)


def _subset(pool, max_size=None):
    return st.lists(st.sampled_from(pool), unique=True, max_size=max_size).map(sorted)


def _route_op():
    def mk(t, plain, opt, ws, mx, mx_opt, suffix):
        m = sorted(plain + (['OPTIONS'] if opt else []) + ([META] if ws else []))
        mx = sorted(mx + (['OPTIONS'] if mx_opt else []))
        return {'k': 'route', 't': t, 'm': m, 'mx': mx, 'suffix': suffix}
    return st.builds(
        mk,
        st.integers(0, len(TEMPLATES) - 1),
        st.one_of(_subset(PLAIN_M, 4), _subset(PLAIN_M), st.just(list(PLAIN_M))),
        st.booleans(), st.booleans(),
        st.one_of(st.just([]), _subset(PLAIN_M + [META], 4), _subset(PLAIN_M + [META])),
        st.booleans(),
        st.sampled_from([None, None, None, 'x', 'x', 'y']),
    )


def _sink_op():
    return st.builds(lambda p: {'k': 'sink', 'p': p}, st.integers(0, len(SINKS) - 1))


def _static_op():
    return st.builds(lambda p, fb: {'k': 'static', 'p': p, 'fb': fb},
                     st.integers(0, len(STATICS) - 1), st.booleans())


def _template_hits():
    out = []
    for t in TEMPLATES:
        r = RefRouter()
        r.add(t, 0)
        out.append([i for i, p in enumerate(PATHS) if r.find(p) is not None])
    return out


TEMPLATE_HITS = _template_hits()

_method = st.one_of(
    st.sampled_from(REQ_METHODS),
    st.sampled_from(['GET', 'HEAD', 'OPTIONS', 'OPTIONS', 'POST', 'VERSION-CONTROL', META, UNKNOWN]),
)


@st.composite
def _apps(draw):
    ops = (draw(st.lists(_route_op(), max_size=4)) + draw(st.lists(_sink_op(), max_size=3))
           + draw(st.lists(_static_op(), max_size=2)))
    ops = draw(st.permutations(ops))
    if draw(st.integers(0, 3)) == 0:
        ops = [dict(o, inst=True) if o['k'] == 'route' else o for o in ops]
    if draw(st.integers(0, 5)) == 0:
        which = draw(st.integers(0, 7))
        ops = [dict(o, falsy=True) if o['k'] == 'route' and (which >> (j % 3)) & 1 == 0 else o for j, o in enumerate(ops)]
    # half of the requests aim at paths that some registered template matches (generator-side bias only)
    hot = sorted(set(pi for op in ops if op['k'] == 'route' for pi in TEMPLATE_HITS[op['t']]))
    anypath = st.integers(0, len(PATHS) - 1)
    path = st.one_of(anypath, st.sampled_from(hot)) if hot else anypath
    reqs = draw(st.lists(st.tuples(path, _method), min_size=8, max_size=24))
    # a third of the apps also serve requests while they are being assembled (after the k-th registration)
    inter = []
    if len(ops) >= 2 and draw(st.integers(0, 2)) == 0:
        inter = sorted(draw(st.sets(st.integers(0, len(ops) - 2), min_size=1, max_size=3)))
    # re-registration of an identical sink / static prefix is part of "most recently added wins"
    if ops and draw(st.integers(0, 3)) == 0:
        n_static = sum(1 for o in ops if o['k'] == 'static')
        dup = [o for o in ops if o['k'] == 'sink' or (o['k'] == 'static' and n_static < 2)]  # two file trees exist
        if dup:
            ops = list(ops) + [dict(draw(st.sampled_from(dup)))]
            if draw(st.booleans()):
                inter = sorted(set(inter) | {len(ops) - 2})
    return {'sbs': draw(st.booleans()), 'ops': list(ops), 'reqs': [list(r) for r in reqs], 'interleave': inter,
            'reraise': draw(st.integers(0, 4)) == 0}


class Apps(_Base):
    """Random app descriptions: 0-4 routes over 8 templates (generated resource classes implementing arbitrary
    subsets of the 22 HTTP/WebDAV methods, optional on_options / on_websocket, suffixed twins on_*_x, registered
    without suffix, with suffix='x', or with a suffix no responder has), 0-3 sinks (5 prefixes, one pre-compiled,
    three with named groups), 0-2 static routes (5 prefixes overlapping the sinks, with/without fallback file),
    interleaved registration order, both values of sink_before_static_route; 8-24 requests (16 paths x 24 methods:
    the 22 methods, WEBSOCKET and an unknown token) each sent to the WSGI and the ASGI rendering and compared with
    the reference dispatcher: responder/sink identity, keyword arguments, status, exact Allow list, static file
    bytes."""

    name = 'apps'
    budget = {'quick': 4000, 'thorough': 40000}

    def strategy(self, tier):
        return _apps()


SUB = ['GET', 'HEAD', 'OPTIONS', 'POST', 'VERSION-CONTROL', META]


class Subsets(_Base):
    """All 64 subsets of the sub-alphabet {GET, HEAD, OPTIONS, POST, VERSION-CONTROL, WEBSOCKET} as the implemented
    responders of a single route '/a' — once unsuffixed (the complement implemented as on_*_x twins that must never
    run) and once registered with suffix='x' (the complement implemented unsuffixed) — next to a catch-all sink;
    every one of the 24 request methods against the route path and a sink-only path, on both stacks."""

    name = 'subsets'
    exhaustive = True
    budget = {'quick': 1, 'thorough': 1}

    def cases(self, tier):
        reqs = [[PATHS.index(p), m] for p in ('/a', '/zz') for m in REQ_METHODS]
        for suffix in (None, 'x'):
            for bits in range(64):
                sub = sorted(m for j, m in enumerate(SUB) if bits >> j & 1)
                rest = sorted(m for m in SUB if m not in sub)
                route = {'k': 'route', 't': TEMPLATES.index('/a'), 'suffix': suffix,
                         'm': sub if suffix is None else rest, 'mx': rest if suffix is None else sub}
                yield {'sbs': True, 'ops': [{'k': 'sink', 'p': 0}, route], 'reqs': reqs}
                if bits % 9 == 0:
                    yield {'sbs': True, 'ops': [{'k': 'sink', 'p': 0}, dict(route, falsy=True)], 'reqs': reqs}
                if bits % 7 == 3:
                    yield {'sbs': True, 'ops': [{'k': 'sink', 'p': 0}, route], 'reqs': reqs, 'reraise': True}
        # methods configured through FALCON_CUSTOM_HTTP_METHODS (only in a process started with it): implemented by the
        # resource, by its suffixed twin only, or not at all
        if CUSTOM_M:
            creqs = [[PATHS.index(p), m] for p in ('/a', '/zz') for m in CUSTOM_M + ['GET', 'POST', 'OPTIONS', UNKNOWN]]
            for k, impl in enumerate(([CUSTOM_M[0], 'GET'], ['GET'], CUSTOM_M, [CUSTOM_M[-1]], ['POST', 'OPTIONS', CUSTOM_M[0]])):
                for suffix in (None, 'x'):
                    rest = sorted(m for m in ['GET', 'POST'] + CUSTOM_M if m not in impl)
                    route = {'k': 'route', 't': TEMPLATES.index('/a'), 'suffix': suffix,
                             'm': sorted(impl) if suffix is None else rest, 'mx': rest if suffix is None else sorted(impl)}
                    yield {'sbs': True, 'ops': [{'k': 'sink', 'p': 0}, route], 'reqs': creqs, 'env_case': True}
        # sinks whose patterns use character classes, asked for ASCII and non-ASCII (percent-encoded UTF-8) paths
        wide = [[PATHS.index(p), m] for p in ('/w/caf%C3%A9', '/w/abc', '/w/%D0%BE%D1%82', '/n%D9%A3', '/n7', '/zz') for m in ('GET', 'POST')]
        for sbs in (True, False):
            yield {'sbs': sbs, 'ops': [{'k': 'sink', 'p': 0}, {'k': 'sink', 'p': 5}, {'k': 'sink', 'p': 6}], 'reqs': wide}
            yield {'sbs': sbs, 'ops': [{'k': 'sink', 'p': 6}, {'k': 'static', 'p': 0, 'fb': False}, {'k': 'sink', 'p': 5}], 'reqs': wide}
            more = [[PATHS.index(p), m] for p in ('/ci/v1', '/CI/V2', '/Ci/x', '/s/' + 'x' * 510, '/s/f.txt', '/s/' + 'x' * 513, '/a/' + 'y' * 700,
                                                  '/s/d/' + 'z' * 70000) for m in ('GET', 'POST')]
            yield {'sbs': sbs, 'ops': [{'k': 'sink', 'p': 0}, {'k': 'sink', 'p': 7}, {'k': 'static', 'p': 2, 'fb': False}], 'reqs': more}
            yield {'sbs': sbs, 'ops': [{'k': 'static', 'p': 4, 'fb': True}, {'k': 'sink', 'p': 3}, {'k': 'sink', 'p': 7}], 'reqs': more}
            # apps with hundreds of sinks (most recently added first; '/m/k100' is also a prefix of '/m/k1000')
            many = [[PATHS.index(p), m] for p in ('/m/k100', '/m/k100/x', '/m/k250/y', '/m/k399', '/m/k1000', '/m/k99', '/m/k3990', '/zz')
                    for m in ('GET', 'DELETE')]
            for n in (70, 300):
                family = [{'k': 'sink', 'p': 100 + j} for j in range(n)]
                yield {'sbs': sbs, 'ops': [{'k': 'sink', 'p': 0}] + family, 'reqs': many}
                yield {'sbs': sbs, 'ops': family[::-1] + [{'k': 'static', 'p': 2, 'fb': False}] + family[:3], 'reqs': many}
            # an older catch-all sink / static route behind the static route that claims the (over-long) path
            yield {'sbs': sbs, 'ops': [{'k': 'sink', 'p': 0}, {'k': 'sink', 'p': 3}, {'k': 'static', 'p': 2, 'fb': False}, {'k': 'static', 'p': 1, 'fb': False}], 'reqs': more}
            yield {'sbs': sbs, 'ops': [{'k': 'static', 'p': 0, 'fb': True}, {'k': 'sink', 'p': 1}, {'k': 'static', 'p': 4, 'fb': False}], 'reqs': more}


SUITES = [Apps(), Subsets()]
KNOWN = {}
