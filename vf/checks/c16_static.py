"""C16 — Static routes never leave their directory and serve exactly the requested bytes.

Three suites against falcon.App (through vf.drivers.wsgi, with and without a
wsgi.file_wrapper) and falcon.asgi.App (through vf.drivers.asgi):

* traversal — hostile request paths against a real temp directory tree that has canary files
  next to the served root; containment is observed with a sys.addaudithook (every file the
  process opens while the request runs), not inferred from the status code;
* ranges    — exhaustive (size, first, last) table against an RFC 9110 reference;
* ims       — If-Modified-Since around the file's mtime.

The oracle shares no code with falcon: paths are resolved by a small lexical resolver over the
known tree, ranges by the arithmetic of RFC 9110 section 14.1.2, dates by a local IMF-fixdate
formatter.
"""
import atexit
import concurrent.futures
import os
import pathlib
import shutil
import sys
import tempfile
import time

from hypothesis import strategies as st

import falcon
import falcon.asgi

from vf import boot
from vf.core import HarnessError, Info, Suite, Violation
from vf.drivers import asgi as A
from vf.drivers import wsgi as W

LEVEL = 'exploration'
RULE = (
    'traversal: random request paths from a traversal grammar (dot segments, doubled/encoded/back-slash '
    'separators, NUL/control/reserved characters, trailing dots and spaces, over-long names, drive/UNC forms, '
    'absolute canary paths, prefix look-alikes), targeted climbs whose lexical resolution lands on a canary '
    'file, and single-edit mutations of existing file names, raw or percent-encoded; a traversal case is '
    'non-trivial when the decoded path contains a "." or ".." segment or the raw path contains an encoded '
    'separator (%2f / %5c) or a back-slash.  ranges: exhaustive size x first x last table; non-trivial when '
    'first > 0, or last/suffix is clamped by the size, or the range is unsatisfiable.  ims: non-trivial when '
    'the date is a valid HTTP-date within one second of the mtime, or the mtime has a fractional part.  '
    'distinct = distinct case fingerprint'
)
ASSUMPTIONS = [
    'POSIX file system, case-sensitive names, regular files and directories only (no symlinks)',
    'the server hands falcon the percent-decoded path (PATH_INFO latin-1 tunnelled / ASGI scope["path"])',
    'containment is judged on "open"/"os.listdir"/"os.scandir" audit events raised while the request runs; '
    'opens of Python runtime files (sys.prefix, the falcon source tree, /verif) are ignored',
    'a 404 is always acceptable except for the exact (decoded) name of an existing file, which must be served',
    'invalid Range syntax (last < first, -0, multi-range, garbage) may give 400 or be ignored (200, full body) '
    'or, for -0, 416; a zero-length file may ignore a valid Range or answer 416; lenient spellings that '
    'int() accepts (+1, " 1", 1_0) may additionally be honoured',
    'a malformed If-Modified-Since may give 400 or be ignored, obsolete date formats may additionally be '
    'honoured; only IMF-fixdate values are held to 304 / 200',
    'Content-Disposition, Content-Type and Last-Modified values are not judged',
]

PREFIX = '/static'

# ------------------------------------------------------------------ sandbox on disk

CANARY_1 = b'CANARY-ONE-6b1f9d2c-sibling-secret'
CANARY_2 = b'CANARY-TWO-0c7e44aa-root-evil-x'
CANARY_3 = b'CANARY-THREE-91d2b7f3-absolute'
CANARIES = (CANARY_1, CANARY_2, CANARY_3)

BIG = 20000  # > 2 stream blocks of 8 KiB
HUGE = 200003  # > 3 * 64 KiB
T0 = 1500000000  # 2017-07-14 02:40:00 UTC

DESIGN_NAMES = ['a.txt', 'sub/b.bin', 'sub/deep/c', '.hidden', 'sp ace.txt', 'empty']


def _pattern(n, salt):
    return bytes((i * 7 + salt + (i >> 8)) & 0xFF for i in range(n))


def _tree():
    t = {
        'a.txt': b'FILE a.txt: alpha\n',
        'sub/b.bin': b'FILE sub/b.bin:' + _pattern(BIG - 15, 3),
        'sub/deep/c': b'FILE sub/deep/c: gamma',
        '.hidden': b'FILE .hidden: delta',
        'sp ace.txt': b'FILE sp ace.txt: epsilon',
        'empty': b'',
        'ims/int.txt': b'FILE ims/int.txt: whole-second mtime',
        'ims/frac.txt': b'FILE ims/frac.txt: fractional mtime',
    }
    for n in range(0, 10):
        t['rng/s%d' % n] = bytes(range(0x41, 0x41 + n))
    t['rng/big'] = _pattern(BIG, 11)
    t['rng/huge'] = _pattern(HUGE, 29)
    return t


TREE = _tree()


# One scratch directory per run, created by the process that imports this module (the runner, before it
# forks its workers) and removed when that process exits, so that sandboxes of workers that are
# terminated early (first violation stops the pool) do not stay behind.
_RUN_DIR = tempfile.mkdtemp(prefix='vf-c16-run-', dir=os.environ.get('TMPDIR') or None)
_RUN_OWNER = os.getpid()


def _remove_run_dir():
    if os.getpid() == _RUN_OWNER:
        shutil.rmtree(_RUN_DIR, ignore_errors=True)


atexit.register(_remove_run_dir)


class Sandbox(object):
    """base/{root/<TREE>, secret.txt, root-evil/x, outside/canary, outside/fallback.html}"""

    def __init__(self):
        os.makedirs(_RUN_DIR, exist_ok=True)
        self.base = os.path.realpath(tempfile.mkdtemp(prefix='sb-', dir=_RUN_DIR))
        self.root = os.path.join(self.base, 'root')
        self.files = dict(TREE)
        for rel, data in self.files.items():
            self._write(os.path.join(self.root, rel), data)
        self._write(os.path.join(self.base, 'secret.txt'), CANARY_1)
        self._write(os.path.join(self.base, 'root-evil', 'x'), CANARY_2)
        self.canary_abs = os.path.join(self.base, 'outside', 'canary')
        self._write(self.canary_abs, CANARY_3)
        self.out_fallback = os.path.join(self.base, 'outside', 'fallback.html')
        self.out_fallback_data = b'FILE outside/fallback.html: legitimate fallback outside the root'
        self._write(self.out_fallback, self.out_fallback_data)
        os.utime(os.path.join(self.root, 'ims/int.txt'), ns=(T0 * 10**9, T0 * 10**9))
        os.utime(os.path.join(self.root, 'ims/frac.txt'), ns=(T0 * 10**9 + 750000000, T0 * 10**9 + 750000000))
        self.root_segs = [s for s in self.root.split('/') if s]
        self.internal = self._internal_prefixes()

    @staticmethod
    def _write(path, data):
        os.makedirs(os.path.dirname(path), exist_ok=True)
        with open(path, 'wb') as fh:
            fh.write(data)

    @staticmethod
    def _internal_prefixes():
        out = set()
        cands = [sys.prefix, sys.base_prefix, sys.exec_prefix, sys.base_exec_prefix,
                 os.path.dirname(os.__file__), boot.REPO, boot.VERIF_ROOT, boot.DEPS,
                 getattr(sys, 'pycache_prefix', None)]
        for c in cands:
            if c:
                out.add(os.path.realpath(c))
        return sorted(out)

    def remove(self):
        shutil.rmtree(self.base, ignore_errors=True)

    def subst(self, text):
        """Placeholders of the generators: {B} absolute sandbox base, {b} the same without the leading
        slash, {B%} with %2f separators."""
        return (text.replace('{B%}', self.base.replace('/', '%2f'))
                .replace('{B}', self.base).replace('{b}', self.base.lstrip('/')))

    # ---- fallback configurations
    def fallback(self, key):
        """-> (argument for add_static_route, realpath of the fallback file, its bytes)"""
        if key is None:
            return None, None, None
        if key == 'in_rel':
            return 'a.txt', os.path.join(self.root, 'a.txt'), self.files['a.txt']
        if key == 'in_sub':
            return 'sub/deep/c', os.path.join(self.root, 'sub/deep/c'), self.files['sub/deep/c']
        if key == 'in_abs':
            return os.path.join(self.root, '.hidden'), os.path.join(self.root, '.hidden'), self.files['.hidden']
        if key == 'out_abs':
            return self.out_fallback, self.out_fallback, self.out_fallback_data
        if key == 'ims':
            return 'ims/int.txt', os.path.join(self.root, 'ims/int.txt'), self.files['ims/int.txt']
        raise HarnessError('bad fallback key %r' % (key,))

    def directory(self, form):
        if form == 'str':
            return self.root
        if form == 'slash':
            return self.root + '/'
        if form == 'path':
            return pathlib.Path(self.root)
        if form == 'dotted':
            return os.path.join(self.base, 'root-evil', '..', 'root')
        if form == 'path_dotted':
            # pathlib keeps '..' segments: the same directory as 'dotted', given as a Path
            return pathlib.Path(self.base) / 'root-evil' / '..' / 'root'
        if form == 'path_slash':
            return pathlib.Path(self.root + '/./')
        raise HarnessError('bad directory form %r' % (form,))


# ------------------------------------------------------------------ audit hook (one per process, for ever)

_REC = None
_HOOKED = False
_WATCHED = frozenset(('open', 'os.listdir', 'os.scandir'))


def _audit(event, args):
    rec = _REC
    if rec is None:
        return
    if event in _WATCHED:
        try:
            rec.append((event, args[0]))
        except Exception:  # noqa
            pass


def _install_hook():
    global _HOOKED
    if not _HOOKED:
        sys.addaudithook(_audit)
        _HOOKED = True


def observed(fn):
    """Run fn() with recording on; -> (result, events)."""
    global _REC
    events = []
    _REC = events
    try:
        res = fn()
    finally:
        _REC = None
    return res, events


def check_containment(sb, events, fb_real, what):
    """Every file touched while the request ran lies inside the root or is the fallback file."""
    root = sb.root
    n = 0
    for ev, p in events:
        if isinstance(p, int):
            continue  # an already open descriptor
        if isinstance(p, bytes):
            p = os.fsdecode(p)
        try:
            p = os.fspath(p)
            rp = os.path.realpath(p)
        except (TypeError, ValueError):
            continue  # not a path the OS could have opened (e.g. embedded NUL)
        if rp == root or rp.startswith(root + '/'):
            n += 1
            continue
        if fb_real is not None and rp == fb_real:
            n += 1
            continue
        if not (rp == sb.base or rp.startswith(sb.base + '/')):
            if any(rp == pre or rp.startswith(pre + '/') for pre in sb.internal):
                continue
        raise Violation('opened_outside_root',
                        '%s: audit event %s(%r) resolves to %r which is outside the static directory %r '
                        '(fallback %r)' % (what, ev, p, rp, root, fb_real))
    return n


# ------------------------------------------------------------------ running one request


def _pct_decode(raw):
    b = raw.encode('latin-1')
    out = bytearray()
    i = 0
    while i < len(b):
        if b[i] == 0x25 and len(b) - i >= 3 and all(c in b'0123456789abcdefABCDEF' for c in b[i + 1:i + 3]):
            out.append(int(b[i + 1:i + 3], 16))
            i += 3
            continue
        out.append(b[i])
        i += 1
    return bytes(out).decode('utf-8', 'replace')


def make_app(sb, stack, fb_arg, downloadable, dir_form='str'):
    app = falcon.asgi.App() if stack == 'asgi' else falcon.App()
    app.add_static_route(PREFIX, sb.directory(dir_form), downloadable=downloadable, fallback_filename=fb_arg)
    return app


def request(app, stack, raw_path, headers=(), method='GET'):
    """-> (result, audit events).  stack: wsgi | wsgi_fw | asgi"""
    if stack == 'asgi':
        scope = A.build_scope(method=method, raw_path=raw_path, headers=headers)
        res, events = observed(lambda: A.call(app, scope))
    else:
        env = W.build_environ(method=method, raw_path=raw_path, headers=headers,
                              file_wrapper=W.FileWrapper if stack == 'wsgi_fw' else None)
        res, events = observed(lambda: W.call(app, env))
    if res.error is not None:
        raise res.error  # innermost frame in falcon -> the runner reports internal_error
    return res, events


def no_canary(res, what):
    body = res.body
    for c in CANARIES:
        if c in body:
            raise Violation('canary_disclosed', '%s: response %s carries the content of a file outside the '
                            'static directory: %r' % (what, res.code, body[:120]))


def brief(b):
    return repr(b if len(b) <= 48 else b[:40] + b'...') + ('(%d bytes)' % len(b))


# ------------------------------------------------------------------ suite 1: traversal


def resolve(sb, decoded):
    """Lexical reference: which file of the tree does the decoded request path name?

    -> dict(match, target, escapes, canary).  Empty and "." segments are dropped, ".." pops; the
    result is judged as an absolute path so that climbing out and back in is still "inside".
    """
    out = {'match': False, 'target': None, 'escapes': False, 'canary': False, 'remainder': None}
    if decoded == PREFIX:
        rem = ''
    elif decoded.startswith(PREFIX + '/'):
        rem = decoded[len(PREFIX) + 1:]
    else:
        return out
    out['match'] = True
    out['remainder'] = rem
    stack = list(sb.root_segs)
    for seg in rem.split('/'):
        if seg == '' or seg == '.':
            continue
        if seg == '..':
            if stack:
                stack.pop()
            continue
        stack.append(seg)
    depth = len(sb.root_segs)
    if stack[:depth] == sb.root_segs:
        rel = '/'.join(stack[depth:])
        if rel in sb.files:
            out['target'] = rel
    else:
        out['escapes'] = True
        final = '/' + '/'.join(stack)
        out['canary'] = final in (sb.base + '/secret.txt', sb.base + '/root-evil/x', sb.canary_abs)
    return out


def _enc_all(s, upper=False):
    fmt = '%%%02X' if upper else '%%%02x'
    return ''.join(fmt % b for b in s.encode('utf-8'))


def _enc_min(s):
    return ''.join(c if c.isalnum() or c in '-._/' else _enc_all(c, True) for c in s)


DOTDOT = ['..', '..', '..', '%2e%2e', '%2E%2E', '.%2e', '%2e.', '%252e%252e', '..%00', '..%20', '.. ', '..;',
          '%c0%ae%c0%ae', '%c0%2e%c0%2e', '%e0%80%ae%e0%80%ae', '%uff0e%uff0e', '%ef%bc%8e%ef%bc%8e', '...',
          '....', '. .', '.%00.', '..%0a', '..%09', '%2e%2e%2f..', '.', '%2e']
SEPS = ['/', '/', '/', '%2f', '%2F', '\\', '%5c', '%5C', '//', '/./', '%252f', '%255c', '%c0%af', '%e0%80%af',
        '%c1%9c', '%ef%bc%8f', '%e2%88%95', '\\/', '/\\', '%2f%2f', '\\\\', '/%2e/', '/%00/', ';/']
DESTS = ['secret.txt', 'root-evil/x', 'outside/canary', 'outside/fallback.html', 'root/a.txt', 'root/sub/b.bin',
         'root-evil', 'root', '{b}/secret.txt', '{b}/outside/canary', '{b}/root/a.txt', 'etc/passwd',
         'proc/self/environ', '']
LEADS = ['', '', '', 'sub/', 'sub/deep/', 'nonexistent/', 'a.txt/', 'sub/deep/c/', './', 'sub/./', '.hidden/',
         'sub/../', 'x/y/z/', '%00/', ' /']
TAILS = ['', '', '', '', '%00', '%00.txt', '.', '..', ' ', '%20', '/', '/.', '%3f', '%23', '%00a.txt', '.%20.',
         '::$DATA', '%0d%0a', ';a.txt', '/a.txt']
PREFIXES = ['/static/'] * 12 + ['/static', '/staticfoo/', '/staticfoo', '/static../', '/static./', '/Static/',
                                '/STATIC/', '/static%2f', '/static%2F', '/static\\', '/static%5c', '//static/',
                                '/./static/', '/x/../static/', '/static/../static/', '/', '', '/stat', '/static%00/',
                                '/static /', 'static/', '/static//', '/static/./', '/%73tatic/', '/static;/']
NAMES = ['a.txt', 'sub', 'b.bin', 'deep', 'c', '.hidden', 'sp ace.txt', 'sp%20ace.txt', 'empty', 'sub/b.bin',
         'sub/deep/c', 'secret.txt', 'root-evil', 'x', 'root', 'outside', 'canary', 'static', 'rng', 's3', 'ims',
         'int.txt', 'A.TXT', 'a.txt.', 'a.txt ', 'a', 'txt']
SPECIALS = ['%00', '%0a', '%0d', '%09', '%1f', '%7f', ' ', '%20', '~', '%7e', '%3f', '*', ':', '%3a', '"', "'",
            '%3c', '%3e', '|', '%7c', 'C:', 'c:', 'C:%5c', 'C:/', 'C:\\', '\\\\', '\\\\?\\', '\\\\.\\', '//server/share/',
            '\\\\server\\share\\', 'file:', 'file:///', '+', ';', '%', '%%', '%zz', '%2', '%ff', '%80', '%c3%a9',
            '%ef%bf%bd', '%e2%80%ae', '%c2%85', '%c2%a0', 'CON', 'NUL', 'aux.txt', 'A' * 300, 'a/' * 200, './' * 260,
            '../' * 40, 'B' * 513, 'b' * 255, 'b' * 256, '{B}', '{b}', '{B%}', '{B}/secret.txt', '{B}/outside/canary',
            '{B%}%2fsecret.txt', '/{b}/root-evil/x', '{B}/root/a.txt', '/etc/passwd', '@', '&', '=', '$', ',', '!',
            '(', ')', '[', ']', '{', '}', '^', '`', '%5e', '%60', '-', '_', '.', '..', '...']
MUT_CHARS = ['.', '/', '\\', ' ', '%00', '%0a', '%09', '~', ':', '*', '%3f', '%22', "'", '%3c', '%3e', '%7c', 'A',
             'z', '0', '%', '%ff', '%c3%a9', '%ef%bf%bd', '+', ';', '%20', '%2e', '%2f', '%5c', '%7f', '%80',
             '%c2%80', '%c2%9f', '%e2%80%ae', '-', '_', '%1f', '%25', '..', '//', './', '../', '%2e%2e%2f']
MUT_OPS = ['ins', 'ins', 'del', 'rep', 'rep', 'swapcase', 'enc', 'dup', 'swap']

FALLBACKS = [None, None, None, 'in_rel', 'in_sub', 'in_abs', 'out_abs']
DIR_FORMS = ['str', 'str', 'str', 'slash', 'path', 'dotted', 'path_dotted', 'path_slash']
METHODS = ['GET'] * 8 + ['HEAD', 'POST']


def mutate(name, edits, mode):
    """Edits (op, pos, ch) on an existing name; every kept character is rendered raw or percent-encoded."""
    def render(c):
        if mode == 'all':
            return _enc_all(c)
        if mode == 'ALL':
            return _enc_all(c, True)
        if mode == 'min':
            return _enc_min(c)
        return c
    pieces = [render(c) for c in name]
    for op, pos, ch in edits:
        n = len(pieces)
        if n == 0:
            break
        if op == 'ins':
            pieces.insert(pos % (n + 1), ch)
        elif op == 'del':
            pieces.pop(pos % n)
        elif op == 'rep':
            pieces[pos % n] = ch
        elif op == 'swapcase':
            i = pos % n
            pieces[i] = pieces[i].swapcase() if len(pieces[i]) == 1 else pieces[i]
        elif op == 'enc':
            i = pos % n
            if len(pieces[i]) == 1:
                pieces[i] = _enc_all(pieces[i], bool(pos & 1))
        elif op == 'dup':
            i = pos % n
            pieces.insert(i, pieces[i])
        elif op == 'swap':
            if n >= 2:
                i = pos % (n - 1)
                pieces[i], pieces[i + 1] = pieces[i + 1], pieces[i]
    return ''.join(pieces)


def _config(path_strategy):
    return st.builds(
        lambda gp, stack, method, fb, dl, df: {'gen': gp[0], 'path': gp[1], 'stack': stack, 'method': method,
                                               'fallback': fb, 'downloadable': dl, 'dir': df},
        path_strategy,
        st.sampled_from(['wsgi', 'wsgi', 'wsgi_fw', 'asgi', 'asgi']),
        st.sampled_from(METHODS),
        st.sampled_from(FALLBACKS),
        st.booleans(),
        st.sampled_from(DIR_FORMS),
    )


# forms that really decode to ".." and "/" (what stands between the request and the canary is falcon alone)
TRUE_DOTDOT = ['..', '..', '%2e%2e', '%2E%2E', '.%2e', '%2e.', '%2E.']
TRUE_SEP = ['/', '/', '/', '%2f', '%2F', '//', '/./', '%2f%2f', '/%2e/']
AIM_LEADS = [('', 0), ('', 0), ('sub/', 1), ('sub/deep/', 2), ('nonexistent/', 1), ('a.txt/', 1), ('sub/deep/c/', 3),
             ('./', 0), ('sub/../', 0), ('.hidden/', 1), ('sub%2f', 1), ('rng/', 1)]
AIM_DESTS = ['secret.txt', 'root-evil/x', 'outside/canary', 'root-evil/x', 'root/a.txt', 'root/../secret.txt',
             'root-evil/../root-evil/x', 'root-evil', 'outside/fallback.html']
ABS_FORMS = ['{B}/root-evil/x', '{B}/root-evil/x', '{B}/secret.txt', '{B}/outside/canary', '{B}/root/a.txt',
             '{B}/root/../secret.txt', '{B}/root-evil/../root-evil/x', '{B}/root/../root-evil/x', '{B%}%2froot-evil%2fx',
             '{B%}%2fsecret.txt', '{b}/root-evil/x', '{b}/secret.txt', '{B}/root-evil//x', '{B}/root-evil/./x',
             '/{B}/root-evil/x', '{B}/root', '{B}/root-evil', '{B}/rootx', '{B}/root-evil/x/', '{B}/root/sub/../../root-evil/x']
ABS_PRE = ['', '', '', '/', '%2f', './', 'sub/', 'sub/../', '../', '\\', 'C:', 'file://', '%00', ' ', 'a.txt/../']
# prefix look-alikes glued to the name of an existing file: only "/static/" (after decoding) may match
LOOKALIKE = ['/static', '/staticx', '/static\\', '/static%5c', '/static%00', '/static.', '/static..', '/static ', '/static%20',
             '/staticfoo/', '/static-', '/static_', '/static;', '/statics/', '/stati/', '/stati', '/Static/', '/STATIC/',
             '/sTatic/', '//static/', '/x/static/', '/static%2f', '/static%2F', '/static%252f', '/./static/', '/%2e/static/',
             '/static/../static/', '/x/../static/', '/static/./', '/static//', '/static/sub/../', 'static/', '/static/static/',
             '/%73tatic/', '/static%c0%af', '/static%ef%bc%8f', '/static\t', '/static%09', '/static%0a/', '/', '']
BENIGN_PRE = ['./', 'sub/../', 'x/../', 'sub/deep/../../', 'sub/./../', 'rng/../', './././', 'nonexistent/../',
              '.hidden/../', 'sub/deep/../../sub/../']
BENIGN_SEP = ['/./', '/x/../', '/deep/../', '/././']


def traversal_paths():
    token = st.sampled_from([0, 1, 1, 2, 2, 3]).flatmap(
        lambda k: st.sampled_from((DOTDOT, SEPS, NAMES, SPECIALS)[k]))
    grammar = st.builds(lambda pre, toks: ('grammar', pre + ''.join(toks)),
                        st.sampled_from(PREFIXES), st.lists(token, min_size=0, max_size=9))

    def climb(lead, ups, dest, destsep, tail):
        body = ''.join(dd + sep for dd, sep in ups)
        return ('climb', '/static/' + lead + body + dest.replace('/', destsep) + tail)

    noisy = st.builds(climb, st.sampled_from(LEADS),
                      st.lists(st.tuples(st.sampled_from(DOTDOT), st.sampled_from(SEPS)), min_size=1, max_size=6),
                      st.sampled_from(DESTS), st.sampled_from(['/', '/', '/', '%2f', '\\', '%5c', '//']),
                      st.sampled_from(TAILS))

    def aim(lead_depth, extra, dds, seps, dest, destsep, tail, deep):
        lead, depth = lead_depth
        n = depth + 1 + extra
        if deep:
            # climb to the file system root and come back down the absolute path of the sandbox
            n = 40
            dest = '{b}/' + dest
        body = ''.join(dds[i % len(dds)] + seps[i % len(seps)] for i in range(n))
        return ('aimed', '/static/' + lead + body + dest.replace('/', destsep) + tail)

    aimed = st.builds(aim, st.sampled_from(AIM_LEADS), st.sampled_from([0, 0, 0, 0, 1]),
                      st.lists(st.sampled_from(TRUE_DOTDOT), min_size=1, max_size=3),
                      st.lists(st.sampled_from(TRUE_SEP), min_size=1, max_size=3),
                      st.sampled_from(AIM_DESTS), st.sampled_from(['/', '/', '/', '%2f', '%2F']),
                      st.sampled_from(['', '', '', '', '', '/', '%00', '.', '%20', '/.']),
                      st.sampled_from([False, False, False, True]))
    absolute = st.builds(lambda pre, form, tail: ('absolute', '/static/' + ''.join(pre) + form + tail),
                         st.lists(st.sampled_from(ABS_PRE), min_size=0, max_size=2), st.sampled_from(ABS_FORMS),
                         st.sampled_from(['', '', '', '', '/', '%00', '.', '%20', '/.', '/..', '%3f']))
    edit = st.tuples(st.sampled_from(MUT_OPS), st.integers(0, 40), st.sampled_from(MUT_CHARS))
    mutation = st.builds(lambda name, edits, mode, tail: ('mutation', '/static/' + mutate(name, edits, mode) + tail),
                         st.sampled_from(DESIGN_NAMES), st.lists(edit, min_size=1, max_size=2),
                         st.sampled_from(['raw', 'raw', 'min', 'all', 'ALL']),
                         st.sampled_from(['', '', '', '', '.', '%20', '/', '%00']))
    benign = st.builds(lambda pre, name, sep, mode: ('normalise', '/static/' + pre + mutate(name, [], mode).replace('/', sep)),
                       st.sampled_from(BENIGN_PRE + ['']), st.sampled_from(sorted(TREE)),
                       st.sampled_from(BENIGN_SEP + ['/', '/']), st.sampled_from(['raw', 'raw', 'min']))
    lookalike = st.builds(lambda pre, name, mode: ('lookalike', pre + mutate(name, [], mode)),
                          st.sampled_from(LOOKALIKE), st.sampled_from(sorted(TREE)), st.sampled_from(['raw', 'raw', 'min', 'all']))
    plain = st.builds(lambda name, mode: ('plain', '/static/' + mutate(name, [], mode)),
                      st.sampled_from(sorted(TREE)), st.sampled_from(['raw', 'min', 'all', 'ALL']))
    table = {'grammar': grammar, 'climb': noisy, 'aimed': aimed, 'absolute': absolute, 'mutation': mutation,
             'normalise': benign, 'plain': plain, 'lookalike': lookalike}
    # (Hypothesis spends more of its budget on list-shaped branches; the weights compensate for that)
    weights = (['grammar'] * 4 + ['climb'] * 3 + ['aimed'] * 3 + ['absolute'] * 3 + ['mutation'] * 6
               + ['normalise'] * 3 + ['plain'] * 2 + ['lookalike'] * 3)
    return st.sampled_from(weights).flatmap(lambda k: table[k])


class Traversal(Suite):
    """Hostile request paths (traversal grammar, targeted climbs to canary files, single-edit mutations of
    existing names, raw or percent-encoded) against add_static_route('/static', root) on WSGI (with and
    without wsgi.file_wrapper) and ASGI, with/without fallback file (inside / outside the root) and
    downloadable.  Oracle: every file opened while the request runs (sys.addaudithook) resolves inside the
    root or is the fallback, independent of the status; status is 200 or 404; a 200 carries exactly the bytes
    of the file the path lexically names (else the fallback); canary bytes never appear; exact names of
    existing files are served."""

    name = 'traversal'
    budget = {'quick': 16000, 'thorough': 300000}

    def setup(self):
        _suite_setup(self)

    def teardown(self):
        _suite_teardown(self)

    def strategy(self, tier):
        return _config(traversal_paths())

    def run(self, case):
        sb = self.sb
        raw = sb.subst(case['path'])
        try:
            raw.encode('latin-1')
        except UnicodeEncodeError:
            raise HarnessError('generator produced a non latin-1 path %r' % (raw,))
        fb_arg, fb_real, fb_data = sb.fallback(case['fallback'])
        stack = case['stack']
        method = case['method']
        app = make_app(sb, stack, fb_arg, case['downloadable'], case['dir'])
        res, events = request(app, stack, raw, method=method)
        what = '%s %s %r fallback=%r downloadable=%r dir=%s' % (stack, method, raw, fb_arg, case['downloadable'],
                                                               case['dir'])
        # ---- containment first, independent of the status
        n_open = check_containment(sb, events, fb_real, what)
        no_canary(res, what)
        decoded = _pct_decode(raw)
        ref = resolve(sb, decoded)
        code = res.code
        if code not in (200, 404):
            raise Violation('unexpected_status', '%s -> %s %s; a static route serves the file or answers 404'
                            % (what, code, brief(res.body)))
        exact = ref['match'] and ref['remainder'] in sb.files
        if ref['target'] is not None:
            exp_name, exp = ref['target'], sb.files[ref['target']]
        elif ref['match'] and fb_data is not None:
            exp_name, exp = 'fallback', fb_data
        else:
            exp_name, exp = None, None
        if code == 200:
            if exp is None:
                raise Violation('served_unexpected', '%s -> 200 %s but the path names no file inside the root '
                                '(reference resolution %r)' % (what, brief(res.body), ref))
            if method != 'HEAD' and res.body != exp:
                raise Violation('wrong_bytes', '%s -> 200 body %s, expected the bytes of %s %s'
                                % (what, brief(res.body), exp_name, brief(exp)))
            cl = res.header('content-length')
            if cl != str(len(exp)):
                raise Violation('wrong_content_length', '%s -> Content-Length %r, expected %d (%s)'
                                % (what, cl, len(exp), exp_name))
            if n_open == 0:
                raise Violation('served_without_open', '%s -> 200 but no open() inside the root was observed '
                                '(audit hook blind?)' % what)
        elif exact:
            raise Violation('not_served', '%s -> %s, but %r is the exact name of an existing file'
                            % (what, code, ref['remainder']))
        # ---- classification
        segs = decoded.split('/')
        low = raw.lower()
        dotseg = '.' in segs or '..' in segs
        encsep = '%2f' in low or '%5c' in low
        backslash = '\\' in decoded
        lb = ['gen:' + case['gen'], 'stack:' + stack, 'status:%d' % code]
        if dotseg:
            lb.append('dot_segment')
        if encsep:
            lb.append('encoded_separator')
        if backslash:
            lb.append('backslash')
        if '//' in decoded:
            lb.append('double_slash')
        if any(ord(c) < 32 or 127 <= ord(c) < 160 for c in decoded):
            lb.append('control_char')
        if '\ufffd' in decoded:
            lb.append('invalid_utf8')
        if len(decoded) > 512:
            lb.append('over_long')
        if not ref['match']:
            lb.append('prefix_not_matched')
        if ref['escapes']:
            lb.append('lexically_outside_root')
        if ref['canary']:
            lb.append('lexically_names_canary')
        if sb.base in decoded:
            lb.append('absolute_sandbox_path')
        if code == 200:
            lb.append('served:' + ('fallback' if exp_name == 'fallback' else 'file'))
            if exp_name != 'fallback' and not exact:
                lb.append('served_after_normalisation')
        if n_open:
            lb.append('opened_something')
        if case['fallback']:
            lb.append('fallback:' + case['fallback'])
        if method != 'GET':
            lb.append('method:' + method)
        return Info(dotseg or encsep or backslash, lb)


# ------------------------------------------------------------------ suite 2: ranges (RFC 9110 section 14)


def ref_range(kind, f, l, size):
    """-> set of acceptable outcomes: ('206', first, last) | ('416',) | ('200',) | ('400',)"""
    if kind == 'unit':
        return {('200',)}
    if kind in ('multi', 'malformed', 'missing'):
        return {('400',), ('200',)}
    if kind == 'fl':
        if l < f:
            return {('400',), ('200',)}  # invalid: judged before anything else
        if size == 0:
            return {('200',), ('416',)}
        if f >= size:
            return {('416',)}
        return {('206', f, min(l, size - 1))}
    if kind == 'open':
        if size == 0:
            return {('200',), ('416',)}
        if f >= size:
            return {('416',)}
        return {('206', f, size - 1)}
    if kind == 'suffix':
        if l == 0:
            return {('400',), ('200',), ('416',)}
        if size == 0:
            return {('200',), ('416',)}
        n = min(l, size)
        return {('206', size - n, size - 1)}
    raise HarnessError('bad range kind %r' % (kind,))


def check_range_outcome(res, allowed, data, what):
    size = len(data)
    code = res.code
    cr = res.header('content-range')
    cl = res.header('content-length')
    exp_txt = ' | '.join(sorted(' '.join(map(str, a)) for a in allowed))
    if code == 206:
        for a in allowed:
            if a[0] == '206':
                first, last = a[1], a[2]
                want = data[first:last + 1]
                if res.body != want:
                    raise Violation('range_wrong_slice', '%s -> 206 body %s, expected bytes %d-%d = %s'
                                    % (what, brief(res.body), first, last, brief(want)))
                if cr != 'bytes %d-%d/%d' % (first, last, size):
                    raise Violation('range_wrong_content_range', '%s -> Content-Range %r, expected %r'
                                    % (what, cr, 'bytes %d-%d/%d' % (first, last, size)))
                if cl != str(len(want)):
                    raise Violation('range_wrong_content_length', '%s -> Content-Length %r, expected %d'
                                    % (what, cl, len(want)))
                return '206'
        raise Violation('range_unexpected_206', '%s -> 206 Content-Range %r body %s; acceptable: %s'
                        % (what, cr, brief(res.body), exp_txt))
    if code == 416:
        if ('416',) not in allowed:
            raise Violation('range_unexpected_416', '%s -> 416; acceptable: %s' % (what, exp_txt))
        if cr != 'bytes */%d' % size:
            raise Violation('range_416_content_range', '%s -> 416 with Content-Range %r, expected %r'
                            % (what, cr, 'bytes */%d' % size))
        if size and data in res.body:
            raise Violation('range_416_body', '%s -> 416 carrying the file' % what)
        return '416'
    if code == 200:
        if ('200',) not in allowed:
            raise Violation('range_ignored', '%s -> 200 (Range ignored) body %s; acceptable: %s'
                            % (what, brief(res.body), exp_txt))
        if res.body != data:
            raise Violation('wrong_bytes', '%s -> 200 body %s, expected the whole file %s'
                            % (what, brief(res.body), brief(data)))
        if cl != str(size):
            raise Violation('wrong_content_length', '%s -> 200 Content-Length %r, expected %d' % (what, cl, size))
        if cr is not None:
            raise Violation('content_range_on_200', '%s -> 200 with Content-Range %r' % (what, cr))
        return '200'
    if code == 400:
        if ('400',) not in allowed:
            raise Violation('range_unexpected_400', '%s -> 400 %s; acceptable: %s' % (what, brief(res.body), exp_txt))
        if size and data in res.body:
            raise Violation('range_400_body', '%s -> 400 carrying the file' % what)
        return '400'
    raise Violation('unexpected_status', '%s -> %s %s; acceptable: %s' % (what, code, brief(res.body), exp_txt))


EXTRA_RANGES = [
    # (header value, kind, f, l)
    ('items=0-1', 'unit', 0, 0), ('seconds=0-1', 'unit', 0, 0), ('x=garbage', 'unit', 0, 0),
    ('items=0-1,3-4', 'unit', 0, 0), ('byte=0-1', 'unit', 0, 0), ('bytess=0-1', 'unit', 0, 0),
    ('none=', 'unit', 0, 0), ('items=-', 'unit', 0, 0),
    ('bytes=0-0,2-2', 'multi', 0, 0), ('bytes=0-1,-1', 'multi', 0, 0), ('bytes=0-,1-', 'multi', 0, 0),
    ('bytes=1-2,', 'multi', 0, 0), ('bytes=,1-2', 'multi', 0, 0), ('bytes=0-0, 2-2', 'multi', 0, 0),
    ('bytes', 'malformed', 0, 0), ('', 'malformed', 0, 0), ('bytes=', 'malformed', 0, 0),
    ('bytes=abc', 'malformed', 0, 0), ('bytes=1', 'malformed', 0, 0), ('bytes=a-b', 'malformed', 0, 0),
    ('bytes=1-b', 'malformed', 0, 0), ('bytes=a-2', 'malformed', 0, 0), ('bytes=1-2-3', 'malformed', 0, 0),
    ('bytes=--1', 'malformed', 0, 0), ('bytes=1--1', 'malformed', 0, 0), ('bytes=0--1', 'malformed', 0, 0),
    ('bytes=-1-', 'malformed', 0, 0), ('bytes=1.0-2', 'malformed', 0, 0), ('bytes=0x1-2', 'malformed', 0, 0),
    ('bytes=1-2;q=1', 'malformed', 0, 0), ('0-1', 'malformed', 0, 0), ('bytes:0-1', 'malformed', 0, 0),
    ('bytes=1e0-2', 'malformed', 0, 0), ('bytes=-a', 'malformed', 0, 0), ('bytes=--', 'malformed', 0, 0),
    # spellings the RFC grammar accepts
    ('bytes=00-01', 'fl', 0, 1), ('bytes=01-0003', 'fl', 1, 3), ('bytes=0-99999999999999999999', 'fl', 0, 10**20 - 1),
    ('bytes=1-18446744073709551616', 'fl', 1, 2**64), ('bytes=99999999999999999999-', 'open', 10**20 - 1, -1),
    ('bytes=4294967296-', 'open', 2**32, -1), ('bytes=-99999999999999999999', 'suffix', -1, 10**20 - 1),
    ('bytes=-18446744073709551617', 'suffix', -1, 2**64 + 1), ('bytes=-000', 'suffix', -1, 0),
    ('bytes=-002', 'suffix', -1, 2), ('bytes=002-', 'open', 2, -1),
]
# spellings outside the RFC grammar that a lenient integer parser accepts: may be rejected, ignored or honoured
LENIENT_RANGES = [
    ('bytes= 1-2', 'fl', 1, 2), ('bytes=1-2 ', 'fl', 1, 2), ('bytes=+1-2', 'fl', 1, 2), ('bytes=1-+2', 'fl', 1, 2),
    ('bytes=1 - 2', 'fl', 1, 2), ('bytes=1_0-', 'open', 10, -1), ('bytes=0-1_0', 'fl', 0, 10), ('bytes=-+2', 'suffix', -1, 2),
    ('bytes=- 2', 'suffix', -1, 2), ('Bytes=1-2', 'fl', 1, 2), ('BYTES=0-', 'open', 0, -1), ('bytes =1-2', 'fl', 1, 2),
    (' bytes=1-2', 'fl', 1, 2), ('bytes=\t1-', 'open', 1, -1), ('bytes=1-\t', 'open', 1, -1),
]
BIG_RANGES = [
    ('fl', 0, 0), ('fl', 0, 8191), ('fl', 0, 8192), ('fl', 8191, 8192), ('fl', 8191, 8193), ('fl', 8192, 16383),
    ('fl', 8192, 16384), ('fl', 1, BIG - 2), ('fl', 0, BIG - 1), ('fl', 0, BIG), ('fl', 100, BIG + 5000),
    ('fl', BIG - 1, BIG - 1), ('fl', BIG - 1, BIG + 7), ('fl', BIG, BIG), ('fl', BIG, BIG + 1), ('fl', BIG + 1, BIG + 2),
    ('fl', 16384, 16384), ('fl', 16383, BIG - 1), ('fl', 5, 4),
    ('open', 0, -1), ('open', 1, -1), ('open', 8191, -1), ('open', 8192, -1), ('open', 16385, -1), ('open', BIG - 1, -1),
    ('open', BIG, -1), ('open', BIG + 1, -1),
    ('suffix', -1, 0), ('suffix', -1, 1), ('suffix', -1, 8191), ('suffix', -1, 8192), ('suffix', -1, 8193),
    ('suffix', -1, BIG - 1), ('suffix', -1, BIG), ('suffix', -1, BIG + 1), ('suffix', -1, 10 * BIG),
]
_K64 = 65536
HUGE_RANGES = [
    ('fl', 0, _K64 - 2), ('fl', 0, _K64 - 1), ('fl', 0, _K64), ('fl', 1, _K64), ('fl', _K64 - 1, _K64), ('fl', _K64, 2 * _K64 - 1),
    ('fl', _K64, 2 * _K64), ('fl', 1, HUGE - 2), ('fl', 0, HUGE - 1), ('fl', 0, HUGE + 9), ('fl', 2 * _K64 - 1, 2 * _K64 + 1),
    ('fl', 7, 3 * _K64 + 7), ('fl', HUGE - 1, HUGE - 1), ('fl', HUGE, HUGE),
    ('open', 0, -1), ('open', 1, -1), ('open', _K64 - 1, -1), ('open', _K64, -1), ('open', HUGE - _K64, -1), ('open', HUGE - _K64 - 1, -1),
    ('open', HUGE - 1, -1), ('open', HUGE, -1),
    ('suffix', -1, _K64 - 1), ('suffix', -1, _K64), ('suffix', -1, _K64 + 1), ('suffix', -1, 2 * _K64 + 1), ('suffix', -1, HUGE - 1),
    ('suffix', -1, HUGE), ('suffix', -1, HUGE + 1),
]
RANGE_STACKS = ['wsgi', 'wsgi_fw', 'asgi']


def render_range(kind, f, l):
    if kind == 'fl':
        return 'bytes=%d-%d' % (f, l)
    if kind == 'open':
        return 'bytes=%d-' % f
    if kind == 'suffix':
        return 'bytes=-%d' % l
    if kind == 'missing':
        return 'bytes=-'
    raise HarnessError(kind)


class Ranges(Suite):
    """Exhaustive Range table: file sizes 0..6 (thorough 0..9) x first in -1..8 (..11) x last in -1..8 (..11)
    rendered as bytes=f-l / bytes=f- / bytes=-s / bytes=- (-1 = absent), plus other units, multi-range,
    malformed and lenient spellings, very large numbers, and block-boundary ranges on a 20 000 byte file; on
    WSGI, WSGI with wsgi.file_wrapper and ASGI.  Oracle: RFC 9110 14.1.2 arithmetic (206 + exact slice +
    Content-Range + Content-Length; 416 with bytes */size; invalid syntax 400 or ignored; other unit ignored)."""

    name = 'ranges'
    exhaustive = True
    budget = {'quick': 1, 'thorough': 1}

    def setup(self):
        _suite_setup(self)

    def teardown(self):
        _suite_teardown(self)

    def cases(self, tier):
        top_size, top = (6, 8) if tier == 'quick' else (9, 11)
        for stack in RANGE_STACKS:
            for size in range(0, top_size + 1):
                fn = 'rng/s%d' % size
                for f in range(-1, top + 1):
                    for l in range(-1, top + 1):
                        kind = ('missing' if l < 0 else 'suffix') if f < 0 else ('open' if l < 0 else 'fl')
                        yield {'stack': stack, 'file': fn, 'kind': kind, 'f': f, 'l': l,
                               'range': render_range(kind, f, l), 'lenient': False}
                for value, kind, f, l in EXTRA_RANGES:
                    yield {'stack': stack, 'file': fn, 'kind': kind, 'f': f, 'l': l, 'range': value, 'lenient': False}
                    if size in (2, 5):
                        # a client that accepts no error document (no JSON / XML / */*): the 416 / 400 has no rendered body
                        yield {'stack': stack, 'file': fn, 'kind': kind, 'f': f, 'l': l, 'range': value, 'lenient': False,
                               'accept': 'image/png'}
                if size in (2, 5):
                    for f, l in ((size, -1), (size + 3, size + 4), (0, 0), (1, -1), (-1, 1), (size + 1, 0)):
                        kind = ('missing' if l < 0 else 'suffix') if f < 0 else ('open' if l < 0 else 'fl')
                        yield {'stack': stack, 'file': fn, 'kind': kind, 'f': f, 'l': l, 'range': render_range(kind, f, l),
                               'lenient': False, 'accept': 'application/octet-stream'}
                for value, kind, f, l in LENIENT_RANGES:
                    yield {'stack': stack, 'file': fn, 'kind': kind, 'f': f, 'l': l, 'range': value, 'lenient': True}
            for kind, f, l in BIG_RANGES:
                for fn in ('rng/big', 'sub/b.bin'):
                    yield {'stack': stack, 'file': fn, 'kind': kind, 'f': f, 'l': l,
                           'range': render_range(kind, f, l), 'lenient': False}
            for kind, f, l in HUGE_RANGES:
                yield {'stack': stack, 'file': 'rng/huge', 'kind': kind, 'f': f, 'l': l,
                       'range': render_range(kind, f, l), 'lenient': False}
            # the whole file (a unit that is not bytes is ignored: 200 with all 200 003 bytes)
            yield {'stack': stack, 'file': 'rng/huge', 'kind': 'unit', 'f': 0, 'l': 0, 'range': 'items=0-5', 'lenient': False}

    def run(self, case):
        sb = self.sb
        stack = case['stack']
        data = sb.files[case['file']]
        size = len(data)
        kind, f, l = case['kind'], case['f'], case['l']
        allowed = set(ref_range(kind, f, l, size))
        if case['lenient']:
            allowed |= {('400',), ('200',)}
        app = make_app(sb, stack, None, False)
        raw = PREFIX + '/' + case['file']
        headers = [('Range', case['range'])] + ([('Accept', case['accept'])] if case.get('accept') else [])
        res, events = request(app, stack, raw, headers=headers)
        what = '%s GET %s (size %d) Range: %r%s' % (stack, raw, size, case['range'],
                                                     ' Accept: %s' % case['accept'] if case.get('accept') else '')
        check_containment(sb, events, None, what)
        no_canary(res, what)
        got = check_range_outcome(res, allowed, data, what)
        lb = ['stack:' + stack, 'kind:' + ('lenient' if case['lenient'] else kind), 'status:' + got]
        nontrivial = False
        if not case['lenient'] and kind in ('fl', 'open', 'suffix') and size:
            if kind != 'suffix' and f > 0 and (kind == 'open' or l >= f):
                lb.append('first>0')
                nontrivial = True
            if kind == 'fl' and l >= f and l >= size:
                lb.append('last_clamped')
                nontrivial = True
            if kind == 'suffix' and l > size:
                lb.append('suffix_clamped')
                nontrivial = True
            if kind != 'suffix' and f == size:
                lb.append('first==size')
            if got == '416':
                nontrivial = True
        if size == 0:
            lb.append('size0')
        if size == BIG:
            lb.append('big_file')
        if size == HUGE:
            lb.append('huge_file(>3*64KiB)')
        return Info(nontrivial, lb)


# ------------------------------------------------------------------ suite 3: If-Modified-Since

_DAYS = ['Mon', 'Tue', 'Wed', 'Thu', 'Fri', 'Sat', 'Sun']
_LONG_DAYS = ['Monday', 'Tuesday', 'Wednesday', 'Thursday', 'Friday', 'Saturday', 'Sunday']
_MONTHS = ['Jan', 'Feb', 'Mar', 'Apr', 'May', 'Jun', 'Jul', 'Aug', 'Sep', 'Oct', 'Nov', 'Dec']


def http_date(t, fmt='imf'):
    tm = time.gmtime(t)
    hms = '%02d:%02d:%02d' % (tm.tm_hour, tm.tm_min, tm.tm_sec)
    if fmt == 'imf':
        return '%s, %02d %s %04d %s GMT' % (_DAYS[tm.tm_wday], tm.tm_mday, _MONTHS[tm.tm_mon - 1], tm.tm_year, hms)
    if fmt == 'rfc850':
        return '%s, %02d-%s-%02d %s GMT' % (_LONG_DAYS[tm.tm_wday], tm.tm_mday, _MONTHS[tm.tm_mon - 1],
                                            tm.tm_year % 100, hms)
    if fmt == 'asctime':
        return '%s %s %2d %s %04d' % (_DAYS[tm.tm_wday], _MONTHS[tm.tm_mon - 1], tm.tm_mday, hms, tm.tm_year)
    if fmt == 'imf_nogmt':
        return http_date(t)[:-4]
    if fmt == 'imf_lower':
        return http_date(t).lower()
    if fmt == 'imf_utc':
        return http_date(t)[:-3] + 'UTC'
    if fmt == 'imf_offset':
        return http_date(t)[:-3] + '+0000'
    if fmt == 'wrong_weekday':
        return _DAYS[(tm.tm_wday + 1) % 7] + http_date(t)[3:]
    if fmt == 'double_space':
        return http_date(t).replace(', ', ',  ')
    if fmt == 'epoch':
        return str(t)
    if fmt == 'iso':
        return '%04d-%02d-%02dT%sZ' % (tm.tm_year, tm.tm_mon, tm.tm_mday, hms)
    if fmt == 'garbage':
        return 'yesterday'
    if fmt == 'empty':
        return ''
    if fmt == 'day32':
        return '%s, 32 %s %04d %s GMT' % (_DAYS[tm.tm_wday], _MONTHS[tm.tm_mon - 1], tm.tm_year, hms)
    if fmt == 'hour24':
        return http_date(t)[:17] + '24:00:00 GMT'
    if fmt == 'trailing':
        return http_date(t) + ' x'
    raise HarnessError('bad date format %r' % (fmt,))


IMS_DELTAS = [-10**9, -31536000, -86400, -3600, -61, -60, -59, -3, -2, -1, 0, 1, 2, 3, 59, 60, 61, 3600, 86400,
              31536000, 10**9]
IMS_VALID = ['imf']
IMS_OBSOLETE = ['rfc850', 'asctime']  # valid obsolete formats: may be honoured or rejected
IMS_LENIENT = ['imf_lower', 'imf_utc', 'wrong_weekday', 'double_space']  # sloppy spellings: honoured, ignored or rejected
IMS_MALFORMED = ['imf_nogmt', 'imf_offset', 'epoch', 'iso', 'garbage', 'empty', 'day32', 'hour24', 'trailing']
IMS_TARGETS = [
    # (request path, file whose bytes/mtime apply, fallback key, mtime seconds (floor), fractional?)
    ('ims/int.txt', 'ims/int.txt', None, False),
    ('ims/frac.txt', 'ims/frac.txt', None, True),
    ('ims/missing', 'ims/int.txt', 'ims', False),
]


class IfModifiedSince(Suite):
    """If-Modified-Since at mtime + {-1e9 .. -1, 0, +1 .. +1e9} s for a file with a whole-second mtime, one
    with a fractional mtime and the fallback file; IMF-fixdate, the two obsolete formats, sloppy and
    malformed spellings, and the Last-Modified value echoed from a first response; with and without a
    Range header; WSGI, WSGI+file_wrapper, ASGI.  Oracle: valid date >= floor(mtime) -> 304 with an empty
    body; earlier -> the file (200, or 206 for the range); malformed -> never 304 (400 or ignored)."""

    name = 'ims'
    exhaustive = True
    budget = {'quick': 1, 'thorough': 1}

    def setup(self):
        _suite_setup(self)

    def teardown(self):
        _suite_teardown(self)

    def cases(self, tier):
        for stack in RANGE_STACKS:
            for ti in range(len(IMS_TARGETS)):
                # RFC 9110 13.2.2: If-Modified-Since is evaluated before Range, which only applies to what would be a 200:
                # an unsatisfiable or malformed Range must not turn a 304 into 416 / 400
                for rng in (None, 'bytes=1-2', 'bytes=999999-', 'bytes=8-4'):
                    if rng in ('bytes=999999-', 'bytes=8-4') and stack != RANGE_STACKS[0] and ti:
                        continue
                    for fmt in IMS_VALID + IMS_OBSOLETE + IMS_LENIENT + IMS_MALFORMED:
                        deltas = IMS_DELTAS if fmt in IMS_VALID + IMS_OBSOLETE else [-86400, -1, 0, 1, 86400]
                        for d in deltas:
                            yield {'stack': stack, 'target': ti, 'range': rng, 'format': fmt, 'delta': d}
                            if fmt in IMS_VALID and d in (-3600, -1, 0, 1, 3600, -86400, 86400):
                                # HTTP dates are GMT: the server's local time zone must not matter
                                for tz in ('XXX5', 'YYY-3'):
                                    yield {'stack': stack, 'target': ti, 'range': rng, 'format': fmt, 'delta': d, 'tz': tz}
                    yield {'stack': stack, 'target': ti, 'range': rng, 'format': 'echo', 'delta': 0}
                    yield {'stack': stack, 'target': ti, 'range': rng, 'format': 'echo', 'delta': 0, 'tz': 'YYY-3'}

    def run(self, case):
        from vf.core import local_timezone
        with local_timezone(case.get('tz')):
            info = self._run(case)
        if case.get('tz'):
            info = Info(info.nontrivial, list(info.labels) + ['server_tz:' + case['tz']])
        return info

    def _run(self, case):
        sb = self.sb
        stack = case['stack']
        path, fname, fbkey, frac = IMS_TARGETS[case['target']]
        fb_arg, fb_real, fb_data = sb.fallback(fbkey)
        data = sb.files[fname]
        fmt = case['format']
        app = make_app(sb, stack, fb_arg, False)
        raw = PREFIX + '/' + path
        if fmt == 'echo':
            first, ev0 = request(app, stack, raw)
            check_containment(sb, ev0, fb_real, 'first request ' + raw)
            if first.code != 200 or first.body != data:
                raise Violation('wrong_bytes', '%s GET %s -> %s %s, expected the file' % (stack, raw, first.code,
                                                                                       brief(first.body)))
            value = first.header('last-modified')
            if value is None:
                return Info(False, ['no_last_modified'])
            not_modified = True
            cls = 'valid'
        else:
            t = T0 + case['delta']
            value = http_date(t, fmt)
            not_modified = T0 <= t  # floor(mtime) == T0 for both files
            cls = ('valid' if fmt in IMS_VALID else 'obsolete' if fmt in IMS_OBSOLETE
                   else 'lenient' if fmt in IMS_LENIENT else 'malformed')
        headers = [('If-Modified-Since', value)]
        if case['range']:
            headers.append(('Range', case['range']))
        res, events = request(app, stack, raw, headers=headers)
        what = '%s GET %s If-Modified-Since: %r (mtime %s%s)%s' % (
            stack, raw, value, http_date(T0), ' +0.75s' if frac else '',
            ' Range: ' + case['range'] if case['range'] else '')
        check_containment(sb, events, fb_real, what)
        no_canary(res, what)
        code = res.code

        def served():
            if case['range'] == 'bytes=999999-':
                return check_range_outcome(res, {('416',)}, data, what)
            if case['range'] == 'bytes=8-4':
                return check_range_outcome(res, {('400',), ('200',)}, data, what)
            if case['range']:
                return check_range_outcome(res, {('206', 1, 2)}, data, what)
            return check_range_outcome(res, {('200',)}, data, what)

        def not_modified_response():
            if res.body != b'':
                raise Violation('body_on_304', '%s -> 304 with body %s' % (what, brief(res.body)))
            if res.header('content-range') is not None:
                raise Violation('content_range_on_304', '%s -> 304 with Content-Range' % what)
            return '304'

        if cls == 'valid':
            if not_modified:
                if code != 304:
                    raise Violation('not_modified_ignored', '%s -> %s %s, expected 304 (date is not earlier than '
                                    'the modification time)' % (what, code, brief(res.body)))
                got = not_modified_response()
            else:
                if code == 304:
                    raise Violation('false_304', '%s -> 304 although the file is newer than the date' % what)
                got = served()
        elif cls in ('obsolete', 'lenient'):
            if code == 400:
                got = '400'
            elif code == 304:
                if not not_modified:
                    raise Violation('false_304', '%s -> 304 although the file is newer than the date' % what)
                got = not_modified_response()
            else:
                got = served()  # the header was ignored
        else:
            if code == 304:
                raise Violation('false_304', '%s -> 304 for a value that is not an HTTP-date' % what)
            got = '400' if code == 400 else served()
        near = abs(case['delta']) <= 1
        lb = ['stack:' + stack, 'date:' + cls, 'status:' + got, 'target:' + path]
        if fmt == 'echo':
            lb.append('echo_last_modified')
        if case['range']:
            lb.append('with_range')
        if cls == 'valid' and near:
            lb.append('within_1s')
        return Info(cls == 'valid' and (near or frac), lb)


# ------------------------------------------------------------------ per-process set-up shared by the suites


def _suite_setup(suite):
    _install_hook()
    suite.sb = Sandbox()
    # a private single-thread executor for falcon's run_in_executor file reads: no thread state is
    # inherited over fork() and reads are served in order
    suite.executor = concurrent.futures.ThreadPoolExecutor(max_workers=1, thread_name_prefix='vf-c16')
    A.loop().set_default_executor(suite.executor)
    # warm-up outside the recording window (lazy imports, codecs)
    for stack in RANGE_STACKS:
        app = make_app(suite.sb, stack, None, False)
        request(app, stack, PREFIX + '/a.txt')
        request(app, stack, PREFIX + '/nope', headers=[('Range', 'bytes=0-0')])


def _suite_teardown(suite):
    ex = getattr(suite, 'executor', None)
    if ex is not None:
        ex.shutdown(wait=True)
        suite.executor = None
    sb = getattr(suite, 'sb', None)
    if sb is not None:
        sb.remove()
        suite.sb = None


class FileHistory(Suite):
    """One static route lives through a history of requests interleaved with changes of the file on disk (rewritten with
    new bytes and a newer, the same or an older mtime, truncated, deleted, re-created): every response must reflect the file as it is at the
    time of the request: 200 with the current bytes, 304 only when the validator sent is not older than the CURRENT mtime
    (floor to seconds), 404 while the file does not exist; conditional requests carry the Last-Modified value echoed from
    an earlier response of the same history."""

    name = 'file_history'
    budget = {'quick': 1500, 'thorough': 30000}

    def setup(self):
        _suite_setup(self)

    def teardown(self):
        _suite_teardown(self)

    def strategy(self, tier):
        op = st.one_of(
            st.just(['get']), st.just(['get']), st.just(['get_ims_echo']), st.just(['get_ims_echo']),
            # 0 / negative: rewritten with the mtime it had before, or an older one (restored from a backup, rsync -t, same second)
            st.tuples(st.just('rewrite'), st.integers(0, 40), st.sampled_from([1, 2, 60, 86400, 0, 0, -3600])).map(list),
            st.just(['delete']), st.tuples(st.just('get_range'), st.integers(0, 5)).map(list),
            st.tuples(st.just('remount'), st.booleans()).map(list),
        )
        return st.builds(lambda stack, ops: {'stack': stack, 'ops': ops}, st.sampled_from(RANGE_STACKS),
                         st.lists(op, min_size=2, max_size=9))

    def run(self, case):
        sb = self.sb
        stack = case['stack']
        rel = 'hist/%s.bin' % stack
        path = os.path.join(sb.root, rel)
        os.makedirs(os.path.dirname(path), exist_ok=True)
        app = make_app(sb, stack, None, False)
        t = T0 + 1000
        data = b'version-0:' + bytes(range(48, 58))
        with open(path, 'wb') as fh:
            fh.write(data)
        os.utime(path, ns=(t * 10**9, t * 10**9))
        exists = True
        echoed = None  # (header value, mtime it stood for)
        changed_after_echo = False
        n = 0
        roots = [sb.root, os.path.join(sb.base, 'root-alt')]
        cur = 0
        paths = [path, os.path.join(roots[1], rel)]
        try:
            for op in case['ops']:
                k = op[0]
                if k == 'remount':
                    # the prefix is registered again for the OTHER directory tree (most recent registration wins): from
                    # now on only that tree may be served; the file left behind in the previous tree keeps its old bytes
                    cur = 1 - cur
                    app.add_static_route(PREFIX, roots[cur])
                    path = paths[cur]
                    os.makedirs(os.path.dirname(path), exist_ok=True)
                    n += 1
                    t += 5
                    if op[1]:
                        data = (b'tree-%d-version-%d:' % (cur, n)) + bytes(range(48, 48 + n % 9))
                        with open(path, 'wb') as fh:
                            fh.write(data)
                        os.utime(path, ns=(t * 10**9, t * 10**9))
                        exists = True
                    else:
                        if os.path.exists(path):
                            os.unlink(path)
                        exists = False
                    if echoed is not None:
                        changed_after_echo = True
                    continue
                if k == 'rewrite':
                    n += 1
                    t += op[2]
                    data = (b'version-%d:' % n) + bytes(range(48, 48 + op[1] % 41))
                    with open(path, 'wb') as fh:
                        fh.write(data)
                    os.utime(path, ns=(t * 10**9, t * 10**9))
                    exists = True
                    if echoed is not None:
                        changed_after_echo = True
                    continue
                if k == 'delete':
                    if exists:
                        os.unlink(path)
                    exists = False
                    if echoed is not None:
                        changed_after_echo = True
                    continue
                headers = []
                if k == 'get_ims_echo' and echoed is not None:
                    headers.append(('If-Modified-Since', echoed[0]))
                if k == 'get_range':
                    headers.append(('Range', 'bytes=%d-' % op[1]))
                res, _events = request(app, stack, PREFIX + '/' + rel, headers=headers)
                what = '%s history %r at %r (file %s, mtime %d, %d bytes)' % (stack, case['ops'], op, 'exists' if exists else 'deleted',
                                                                            t, len(data))
                if not exists:
                    if res.code != 404:
                        raise Violation('history_deleted_file_served', '%s: status %d body %s' % (what, res.code, brief(res.body)))
                    continue
                if k == 'get_ims_echo' and echoed is not None and echoed[1] >= t:
                    want = (304, b'')
                elif k == 'get_range' and op[1] < len(data):
                    want = (206, data[op[1]:])
                elif k == 'get_range' and len(data) > 0:
                    want = (416, None)
                else:
                    want = (200, data)
                if res.code != want[0] or (want[1] is not None and res.body != want[1]):
                    raise Violation('history_stale_response', '%s: got %d %s, the file on disk now requires %d %s'
                                    % (what, res.code, brief(res.body), want[0], brief(want[1] or b'')))
                lm = res.header('last-modified')
                if res.code in (200, 206) and lm:
                    echoed = (lm, t)
        finally:
            for pth in paths:
                if os.path.exists(pth):
                    os.unlink(pth)
        return Info(changed_after_echo, [stack] + sorted(set('op:' + o[0] for o in case['ops']))
                    + (['file_changed_after_validator_was_issued'] if changed_after_echo else []))


SUITES = [Traversal(), Ranges(), IfModifiedSince(), FileHistory()]
KNOWN = {}
