"""C10 — URI encode/decode are total, lossless inverses with RFC 3986 output."""
import itertools
import re
import urllib.parse

from hypothesis import strategies as st

from falcon.util import uri

from vf.core import Info, Suite, Violation

LEVEL = 'exploration'
RULE = (
    'string contains a malformed escape (% followed by <2 hex digits), a multi-byte code point, '
    'or >= 8 escapes (decoder switches algorithm); authority cases: has a port or is IPv6; '
    'distinct = distinct case fingerprint'
)
ASSUMPTIONS = [
    'lone surrogates are not text and are excluded',
    'the Cython twin falcon/cyutil/uri.pyx cannot be built offline and is not covered',
    'reference decoder/encoder in this file (byte loop), cross-checked with urllib.parse',
    'each worker first exercises other subsystems sharing the URI helpers with hostile input (results must not depend on process history)',
]

UNRESERVED = 'ABCDEFGHIJKLMNOPQRSTUVWXYZabcdefghijklmnopqrstuvwxyz0123456789-._~'
DELIMS = ":/?#[]@!$&'()*+,;="
HEX = '0123456789ABCDEFabcdef'

ALPHABET = ['%', '+', '2', '5', 'a', 'F', 'f', 'g', '/', '?', '~', '-', ' ', '\x00', 'é', '€', '😀']


def ref_decode(s, plus):
    if plus:
        s = s.replace('+', ' ')
    b = s.encode('utf-8')
    out = bytearray()
    i = 0
    n = len(b)
    while i < n:
        c = b[i]
        if c == 0x25 and i + 2 < n and chr(b[i + 1]) in HEX and chr(b[i + 2]) in HEX:
            out.append(int(b[i + 1:i + 3], 16))
            i += 3
        else:
            out.append(c)
            i += 1
    return bytes(out).decode('utf-8', 'replace')


def ref_encode(s, allowed):
    return ''.join(chr(c) if chr(c) in allowed else '%%%02X' % c for c in s.encode('utf-8'))


_ESC = re.compile('%[0-9A-Fa-f]{2}')


def fully_escaped(s, allowed):
    """Only allowed characters and well-formed escapes."""
    rest = _ESC.sub('', s)
    return all(ch in allowed for ch in rest)


_WARMED = [False]


def warm_process():
    """The functions under test are pure: what they return must not depend on what the process did before.
    Once per worker, other subsystems that share the URI helpers (and their tables / caches) are exercised
    with hostile input first: RFC 5987 filename* values with malformed escapes through the multipart parser,
    query-string parsing, request path decoding, the 'check escaped' encoders through Response helpers."""
    if _WARMED[0]:
        return
    _WARMED[0] = True
    import io
    import falcon
    from falcon.media.multipart import MultipartFormHandler
    from vf.drivers import wsgi as W
    odd = ['%', '%%', '%4', '%g', '%zz', '%+2', '%2+', '%-1', '%G1', '%1g', '% 2', '%a', '%F', '%f%', '%25%', '%e2%82', '%c3']
    odd += ['%' + a + b for a in '25aFfg+-/ ~' for b in '25aFfg+-/ ~']
    for i in range(0, len(odd), 20):
        body = b''
        for j, name in enumerate(odd[i:i + 20]):
            body += (b'--b\r\nContent-Disposition: form-data; name="f%d"; filename*=UTF-8\'\'' % j) + name.encode() + b'x.txt\r\n\r\nv\r\n'
        body += b'--b--\r\n'
        try:
            for part in MultipartFormHandler().deserialize(io.BytesIO(body), 'multipart/form-data; boundary=b', len(body)):
                part.filename
                part.secure_filename
        except falcon.HTTPError:
            pass
    for q in odd:
        falcon.uri.parse_query_string('a=' + q + '&' + q + '=b,' + q, keep_blank=True, csv=True)
        req = falcon.Request(W.build_environ('GET', '/p' + q.replace(' ', '') + '/x', query='k=' + q.replace(' ', '+')))
        req.path, req.params, req.uri
        resp = falcon.Response()
        resp.location = '/l' + q
        resp.append_link('/t' + q, 'next', title_star=('en', 't' + q))


def check_string(s):
    # ---- decode
    for plus in (True, False):
        try:
            got = uri.decode(s, unquote_plus=plus)
        except Exception as e:
            raise Violation('decode_raised', '%r plus=%s: %s: %s' % (s, plus, type(e).__name__, e))
        exp = ref_decode(s, plus)
        if got != exp:
            raise Violation('decode_mismatch', 'decode(%r, unquote_plus=%s) = %r, reference %r' % (s, plus, got, exp))
        lib = (urllib.parse.unquote_plus if plus else urllib.parse.unquote)(s, errors='replace')
        if got != lib:
            raise Violation('decode_vs_urllib', 'decode(%r, unquote_plus=%s) = %r, urllib %r' % (s, plus, got, lib))
    # ---- encoders
    for fn, allowed, name in ((uri.encode_value, UNRESERVED, 'encode_value'),
                              (uri.encode, UNRESERVED + DELIMS, 'encode')):
        enc = fn(s)
        exp = ref_encode(s, allowed)
        if enc != exp:
            raise Violation('encode_mismatch', '%s(%r) = %r, reference %r' % (name, s, enc, exp))
        rest = re.sub('%[0-9A-F]{2}', '', enc)
        if any(ch not in allowed for ch in rest):
            raise Violation('encode_alphabet', '%s(%r) = %r has characters outside the allowed set' % (name, s, enc))
        back = uri.decode(enc, unquote_plus=False)
        if back != s:
            raise Violation('encode_roundtrip', 'decode(%s(%r)) = %r' % (name, s, back))
    for fn, allowed, name in ((uri.encode_value_check_escaped, UNRESERVED, 'encode_value_check_escaped'),
                              (uri.encode_check_escaped, UNRESERVED + DELIMS, 'encode_check_escaped')):
        once = fn(s)
        if fully_escaped(s, allowed):
            if once != s:
                raise Violation('check_escaped_changed', '%s(%r) = %r but input is already escaped' % (name, s, once))
        else:
            exp = ref_encode(s, allowed)
            if once != exp:
                raise Violation('check_escaped_mismatch', '%s(%r) = %r, reference %r' % (name, s, once, exp))
        twice = fn(once)
        if twice != once:
            raise Violation('check_escaped_not_idempotent', '%s: %r -> %r -> %r' % (name, s, once, twice))
        rest = _ESC.sub('', once)
        if any(ch not in allowed for ch in rest):
            raise Violation('encode_alphabet', '%s(%r) = %r has characters outside the allowed set' % (name, s, once))


_MALFORMED = re.compile('%(?![0-9A-Fa-f]{2})')


def nontrivial_string(s):
    return bool(_MALFORMED.search(s)) or any(ord(c) > 127 for c in s) or s.count('%') >= 8


def labels_string(s):
    lb = []
    if _MALFORMED.search(s):
        lb.append('malformed_escape')
    if _ESC.search(s):
        lb.append('wellformed_escape')
    if any(ord(c) > 127 for c in s):
        lb.append('multibyte')
    if s.count('%') >= 8:
        lb.append('long_path(>=8 tokens)')
    if '+' in s:
        lb.append('plus')
    return lb


class EnumShort(Suite):
    """All strings of length <= 4 (quick) / <= 5 (thorough) over a 17-symbol alphabet
    (% + 2 5 a F f g / ? ~ - space NUL and a 2-, 3- and 4-byte code point), through decode
    (both plus modes), the four encoders: reference byte loop, urllib cross-check, output alphabet,
    decode(encode(s)) == s, check_escaped passthrough and idempotence."""

    name = 'enum_short'

    def setup(self):
        warm_process()
    exhaustive = True
    budget = {'quick': 1, 'thorough': 1}

    def cases(self, tier):
        maxlen = 4 if tier == 'quick' else 5
        for n in range(0, maxlen + 1):
            for t in itertools.product(ALPHABET, repeat=n):
                yield {'s': ''.join(t)}

    def run(self, case):
        s = case['s']
        check_string(s)
        return Info(nontrivial_string(s), labels_string(s))


_piece = st.one_of(
    st.sampled_from(['%', '+', '%2', '%G1', '%1g', '%%', '%25', '%2F', '%2f', '%C3%A9', '%E2%82%AC', '%F0%9F%98%80',
                     '%C3', '%A9', '%E2%82', '%FF', '%00', '%c3%a9', ' ', '/', '?', '=', '&', ';', '~', '-', '.', '_']),
    st.text(alphabet=st.characters(blacklist_categories=('Cs',)), min_size=0, max_size=6),
    st.text(alphabet='0123456789abcdefABCDEFgG%', min_size=1, max_size=6),
    st.binary(min_size=1, max_size=4).map(lambda b: ''.join('%%%02X' % c for c in b)),
)


class RandomLong(Suite):
    """Random strings assembled from escapes (valid / truncated / invalid UTF-8), malformed
    escapes, reserved and arbitrary unicode pieces, up to several KB so that the decoder's
    short (<8 tokens) and long paths are both taken."""

    name = 'random_long'

    def setup(self):
        warm_process()
    budget = {'quick': 20000, 'thorough': 600000}

    def strategy(self, tier):
        return st.builds(
            lambda parts, rep: {'s': ''.join(parts) * rep},
            st.lists(_piece, min_size=0, max_size=40),
            st.sampled_from([1, 1, 1, 2, 50]),
        )

    def run(self, case):
        s = case['s']
        check_string(s)
        return Info(nontrivial_string(s), labels_string(s) + ['len>1000'] * (len(s) > 1000))


# ---- authorities (RFC 3986 host [":" port])

_label = st.text(alphabet='abcdefghijklmnopqrstuvwxyz0123456789-', min_size=1, max_size=8)
_regname = st.lists(_label, min_size=1, max_size=4).map('.'.join)
_ipv4 = st.lists(st.integers(0, 255), min_size=4, max_size=4).map(lambda p: '.'.join(map(str, p)))
_h16 = st.text(alphabet='0123456789abcdefABCDEF', min_size=1, max_size=4)
_ipv6 = st.one_of(
    st.lists(_h16, min_size=8, max_size=8).map(':'.join),
    st.builds(lambda a, b: ':'.join(a) + '::' + ':'.join(b), st.lists(_h16, max_size=3), st.lists(_h16, max_size=3)),
    st.builds(lambda a, v4: ':'.join(a) + '::ffff:' + v4, st.lists(_h16, max_size=2), _ipv4),
)
_port = st.one_of(st.none(), st.just(''), st.integers(0, 65535).map(str), st.sampled_from(['80', '443', '0080', '8080']))


class Authority(Suite):
    """parse_host over RFC 3986 authorities: reg-name, IPv4, bracketed IPv6; port absent, empty
    (valid per RFC 3986: port = *DIGIT) or numeric; with and without a default port."""

    name = 'authority'
    budget = {'quick': 6000, 'thorough': 100000}

    def strategy(self, tier):
        return st.builds(
            lambda kind_host, port, default: {'host': kind_host[1], 'v6': kind_host[0], 'port': port, 'default': default},
            st.one_of(_regname.map(lambda h: (False, h)), _ipv4.map(lambda h: (False, h)), _ipv6.map(lambda h: (True, h))),
            _port,
            st.one_of(st.none(), st.sampled_from([80, 443, 8000])),
        )

    def run(self, case):
        host = case['host']
        text = '[%s]' % host if case['v6'] else host
        if case['port'] is not None:
            text += ':' + case['port']
        exp = (host, int(case['port']) if case['port'] else case['default'])
        try:
            got = uri.parse_host(text, case['default']) if case['default'] is not None else uri.parse_host(text)
        except Exception as e:
            raise Violation('parse_host_raised', 'parse_host(%r) raised %s: %s' % (text, type(e).__name__, e))
        if tuple(got) != exp:
            raise Violation('parse_host_mismatch', 'parse_host(%r, %r) = %r, expected %r' % (text, case['default'], got, exp))
        lb = ['v6'] if case['v6'] else ['name_or_v4']
        lb.append('port:' + ('none' if case['port'] is None else 'empty' if case['port'] == '' else 'digits'))
        return Info(case['v6'] or case['port'] is not None, lb)


def quote(s):
    return '"' + s.replace('\\', '\\\\').replace('"', '\\"') + '"'


class QuotedString(Suite):
    """unquote_string(quote(s)) == s for quoted-string text (quoted-pair escaping of \\ and "),
    and strings that are not quoted are returned unchanged."""

    name = 'quoted_string'
    budget = {'quick': 6000, 'thorough': 100000}

    def strategy(self, tier):
        return st.builds(lambda s, q: {'s': s, 'quoted': q},
                         st.text(alphabet=st.one_of(st.sampled_from('\\"a ,;='), st.characters(min_codepoint=32, max_codepoint=255)), max_size=12),
                         st.booleans())

    def run(self, case):
        s = case['s']
        if case['quoted']:
            got = uri.unquote_string(quote(s))
            if got != s:
                raise Violation('unquote_roundtrip', 'unquote_string(%r) = %r, expected %r' % (quote(s), got, s))
        else:
            if not (len(s) >= 2 and s[0] == '"' and s[-1] == '"'):
                got = uri.unquote_string(s)
                if got != s:
                    raise Violation('unquote_changed_unquoted', 'unquote_string(%r) = %r' % (s, got))
        return Info('\\' in s or '"' in s, ['has_backslash'] * ('\\' in s) + ['has_dquote'] * ('"' in s))


class FuzzStrings(Suite):
    """Coverage-guided (Atheris) search over raw bytes decoded as UTF-8 (invalid sequences -> U+FFFD) into one string,
    checked by the same oracle as the enumerated strings; falcon.util.uri is instrumented, so the short / long decoder
    paths and the check-escaped heuristic give coverage feedback.  Seeds: a few escape-heavy strings."""

    name = 'fuzz_strings'

    def setup(self):
        warm_process()
    budget = {'quick': 0, 'thorough': 0}
    fuzz_runs = {'quick': 40000, 'thorough': 3000000}
    fuzz_shards = {'quick': 4, 'thorough': 12}
    fuzz_max_len = 200

    def fuzz_corpus(self):
        return [b'%E2%82%AC', b'a%2', b'%41%42%43%44%45%46%47%48%49', b'+%+%2B', b'%c3%A9%zz%']

    def fuzz_decode(self, data):
        return {'s': data.decode('utf-8', 'replace')}

    def run(self, case):
        s = case['s']
        check_string(s)
        return Info(nontrivial_string(s), labels_string(s))


# ---- sizes beyond the moderate range


class Huge(Suite):
    """Strings whose encoded / decoded form is 64 KiB - 1 MiB long (beyond any internal buffer or block size), built as
    pad + unit * n + tail with multi-byte units so that, for some pad, a character's bytes straddle every power-of-two
    offset; raw and already-escaped forms; plus values with 200-3000 escapes of which a LATE one is malformed.  Same
    reference as everywhere else in this check (decode vs the reference decoder and urllib, encoders vs the reference
    encoder, round trip, check-escaped idempotence)."""

    name = 'huge'
    exhaustive = True
    budget = {'quick': 1, 'thorough': 1}

    def cases(self, tier):
        units = ['\u00e9', '\u20ac', '\U0001f600', 'a\u00e9\u20ac', '%C3%A9', '%F0%9F%98%80+', 'ab']
        for unit in units:
            for pad in (0, 1, 2, 3):
                for nbytes in ((70000, 140000) if tier == 'quick' else (66000, 70000, 140000, 270000, 1100000)):
                    yield {'pad': pad, 'unit': unit, 'nbytes': nbytes, 'tail': ''}
        for n_ok in (200, 255, 256, 257, 511, 512, 1024, 3000):
            for tail in ('%', '%4', '%zz', '/save-100%', '%41'):
                yield {'pad': 1, 'unit': '%41', 'n': n_ok, 'tail': tail}

    def run(self, case):
        unit = case['unit']
        n = case.get('n') or case['nbytes'] // len(unit.encode('utf-8')) + 1
        s = 'x' * case['pad'] + unit * n + case['tail']
        try:
            check_string(s)
        except Violation as v:
            d = v.detail
            raise Violation(v.kind, '%s ... %s\n  for s = %r*%d + %r*%d + %r' % (d[:300], d[-300:], 'x', case['pad'], unit, n, case['tail']))
        return Info(True, ['unit:%s' % ascii(unit), 'len:%s' % ('>=64K' if len(s) >= 65536 else '<64K'),
                           'late_malformed_escape' if _MALFORMED.search(case['tail']) else 'wellformed'])



SUITES = [EnumShort(), RandomLong(), Authority(), QuotedString(), Huge(), FuzzStrings()]
KNOWN = {}
