"""Stepped WebSocket session driver: the harness owns the schedule.

A run interleaves two kinds of steps, with the event loop drained (a fixed
number of sleep(0) turns, no timers, no I/O) after each:
  'D'  the server hands the next client event to the app side: it is appended
       to the server-side inbox and resolves the outstanding receive(), if any
  'A'  the application script is allowed to perform its next operation
The only sources of readiness are futures resolved here, so a run is a pure
function of (capacity, client events, script, word, fault plan).
"""
import asyncio

DRAIN_TURNS = 30


async def drain(n=DRAIN_TURNS):
    for _ in range(n):
        await asyncio.sleep(0)


class ServerSide(object):
    """ASGI server end of one WebSocket connection."""

    def __init__(self, client_events, fail_send_at=None, fail_exc=None, raise_after_disconnect=True):
        self.client_events = list(client_events)  # after websocket.connect
        self.next_client = 0
        self.inbox = [{'type': 'websocket.connect'}]
        self.waiter = None
        self.outstanding = False
        self.pulled = []  # events handed to the app via receive()
        self.sent = []  # events the server accepted from the app
        self.attempts = []  # (event, disconnect already handed to the app?) for every send() call
        self.send_calls = 0
        self.fail_send_at = fail_send_at
        self.fail_exc = fail_exc
        self.client_gone = False  # a disconnect event has been delivered ('D')
        self.raise_after_disconnect = raise_after_disconnect  # servers differ: some raise from send(), some drop silently
        self.receive_after_disconnect = 0
        self.max_outstanding_violation = None

    # -- schedule actions
    def deliver_next(self):
        if self.next_client >= len(self.client_events):
            return False
        ev = self.client_events[self.next_client]
        self.next_client += 1
        self.inbox.append(dict(ev))
        if ev['type'] == 'websocket.disconnect':
            self.client_gone = True
        if self.waiter is not None and not self.waiter.done():
            self.waiter.set_result(None)
        return True

    # -- ASGI callables
    async def receive(self):
        if any(e['type'] == 'websocket.disconnect' for e in self.pulled):
            self.receive_after_disconnect += 1
        while not self.inbox:
            self.outstanding = True
            self.waiter = asyncio.get_running_loop().create_future()
            try:
                await self.waiter
            finally:
                self.outstanding = False
                self.waiter = None
        ev = self.inbox.pop(0)
        self.pulled.append(ev)
        return ev

    async def send(self, event):
        n = self.send_calls
        self.send_calls += 1
        rec = [event, any(e['type'] == 'websocket.disconnect' for e in self.pulled), False]
        self.attempts.append(rec)
        if self.fail_send_at is not None and n >= self.fail_send_at:
            raise self.fail_exc
        if self.client_gone and self.raise_after_disconnect and event.get('type') == 'websocket.send':
            # what servers do once the peer is gone (a late close is ignored)
            raise OSError('client disconnected')
        self.sent.append(event)
        rec[2] = True  # accepted by the server


class Script(object):
    """Application-side script executed inside the responder, one gated step at a time."""

    def __init__(self, ops, perform):
        self.ops = ops
        self.perform = perform  # async (ws, op, script) -> outcome
        self.outcomes = []
        self.permits = 0
        self.gate_waiter = None
        self.at = 0  # index of the step being waited for / executed
        self.in_step = False
        self.finished = False
        self.step_task_blocked = False

    def allow(self):
        self.permits += 1
        if self.gate_waiter is not None and not self.gate_waiter.done():
            self.gate_waiter.set_result(None)

    async def gate(self, i):
        while self.permits <= i:
            self.gate_waiter = asyncio.get_running_loop().create_future()
            try:
                await self.gate_waiter
            finally:
                self.gate_waiter = None

    async def run(self, ws):
        try:
            for i, op in enumerate(self.ops):
                self.at = i
                await self.gate(i)
                self.in_step = True
                try:
                    out = await self.perform(ws, op, self)
                finally:
                    self.in_step = False
                self.outcomes.append(out)
                if out and out[0] == 'raise_out':
                    raise out[1]
            self.at = len(self.ops)
            # one more gate before returning, so that the loop is drained between the last
            # operation and whatever the framework does when the responder returns
            await self.gate(len(self.ops))
        finally:
            self.finished = True
