"""Deterministic one-thread-at-a-time scheduler.

N real threads execute, but only the one the scheduler has released runs; every
`line` trace event inside the traced files (and every explicit `point()` call)
is a yield point at which the plan may pre-empt it.  A plan is a list of
[thread, n] segments: run `thread` for n yield points, then move to the next
segment; when the plan is exhausted the lowest-numbered runnable thread runs to
completion.  A cooperative lock reports "blocked" to the scheduler instead of
blocking in C, so lock-protected sections are modelled faithfully.
"""
import os
import sys
import threading

from vf.core import HarnessError


class Deadlock(Exception):
    pass


class Scheduler(object):
    def __init__(self, fns, plan, trace_prefixes=(), trace_filenames=()):
        self.fns = fns
        self.n = len(fns)
        self.plan = [list(s) for s in plan]
        self.seg = 0
        self.budget = None
        self.go = [threading.Event() for _ in fns]
        self.done = [False] * self.n
        self.blocked = [None] * self.n  # lock the thread waits for
        self.results = [None] * self.n
        self.points = [0] * self.n
        self.switches = 0
        self.finished = threading.Event()
        self.trace_prefixes = tuple(trace_prefixes)
        self.trace_filenames = set(trace_filenames)
        self.local = threading.local()
        self.deadlock = None
        self.current = None
        self._fcache = {}
        self.switch_log = []  # (from, to, points_of_from, where)

    # ---- plan handling
    def _runnable(self, i):
        return not self.done[i] and self.blocked[i] is None

    def _pick(self, preempted=None):
        """Next (thread, budget) according to the plan; None when nothing is runnable.
        `preempted` is the thread whose segment just ran out: once the plan is exhausted another
        runnable thread is preferred, so that the final pre-emption actually takes place."""
        while self.seg < len(self.plan):
            t, n = self.plan[self.seg]
            self.seg += 1
            if 0 <= t < self.n and self._runnable(t) and n > 0 and t != preempted:
                return t, n
        for t in range(self.n):
            if self._runnable(t) and t != preempted:
                return t, None
        if preempted is not None and self._runnable(preempted):
            return preempted, None
        return None

    # ---- thread bodies
    def _tracer(self, frame, event, arg):
        fn = frame.f_code.co_filename
        ok = self._fcache.get(fn)
        if ok is None:
            ok = fn in self.trace_filenames or os.path.realpath(fn).startswith(self.trace_prefixes) if self.trace_prefixes or self.trace_filenames else False
            self._fcache[fn] = ok
        return self._local if ok else None

    def _local(self, frame, event, arg):
        if event == 'line':
            self.point('%s:%d' % (os.path.basename(frame.f_code.co_filename), frame.f_lineno))
        return self._local

    def point(self, where=''):
        i = getattr(self.local, 'tid', None)
        if i is None:
            return
        self.points[i] += 1
        if self.budget is not None:
            self.budget -= 1
            if self.budget <= 0:
                self._leave(i, where)

    def _leave(self, i, where='', finished=False):
        nxt = self._pick(preempted=i if (not finished and self.blocked[i] is None) else None)
        if nxt is None:
            if all(self.done):
                self.finished.set()
                return
            if finished:
                # others are blocked forever
                self.deadlock = 'threads %r blocked forever' % [t for t in range(self.n) if not self.done[t]]
                self.finished.set()
                return
            self.deadlock = 'thread %d blocked and nothing else is runnable' % i
            self.finished.set()
            raise Deadlock(self.deadlock)
        t, n = nxt
        self.budget = n
        if t == i:
            return
        self.switches += 1
        self.switch_log.append((i, t, self.points[i], where))
        self.current = t
        self.go[t].set()
        if not finished:
            self.go[i].wait()
            self.go[i].clear()

    def _body(self, i):
        self.go[i].wait()
        self.go[i].clear()
        self.local.tid = i
        if self.trace_prefixes or self.trace_filenames:
            sys.settrace(self._tracer)
        try:
            self.results[i] = ('ok', self.fns[i]())
        except BaseException as e:  # noqa
            self.results[i] = ('exc', e)
        finally:
            sys.settrace(None)
            self.done[i] = True
            self.local.tid = None
            if not self.finished.is_set():
                self._leave(i, 'end', finished=True)

    def run(self, timeout=60):
        threads = [threading.Thread(target=self._body, args=(i,), daemon=True) for i in range(self.n)]
        for t in threads:
            t.start()
        first = self._pick()
        t, n = first
        self.budget = n
        self.current = t
        self.go[t].set()
        if not self.finished.wait(timeout):
            raise HarnessError('thread schedule did not finish within %ss (plan %r)' % (timeout, self.plan))
        if self.deadlock:
            # release everybody so the threads can end
            for ev in self.go:
                ev.set()
        for th in threads:
            th.join(5)
        return self.results


class CoopLock(object):
    """Semantically a threading.Lock; waiting is reported to the scheduler."""

    def __init__(self, sched):
        self.sched = sched
        self.owner = None
        self.contended = 0
        self.gave_up = 0

    def acquire(self, blocking=True, timeout=-1):
        s = self.sched
        i = getattr(s.local, 'tid', None)
        if self.owner is not None and (not blocking or (timeout is not None and timeout >= 0)) and self.gave_up < 50:
            # a non-blocking or timed acquire of a held lock: the holder is descheduled for as long as the scheduler
            # likes (schedules know no clock), so ANY finite timeout may run out first - that is the schedule explored.
            # (After 50 such failures the lock falls back to waiting, so that retry loops terminate.)
            self.contended += 1
            self.gave_up += 1
            return False
        while self.owner is not None:
            if i is None:
                raise HarnessError('CoopLock used outside a scheduled thread')
            self.contended += 1
            s.blocked[i] = self
            s._leave(i, 'lock')
        self.owner = i
        return True

    def release(self):
        self.owner = None
        s = self.sched
        for t in range(s.n):
            if s.blocked[t] is self:
                s.blocked[t] = None

    def __enter__(self):
        self.acquire()
        return self

    def __exit__(self, *a):
        self.release()
        return False


class NoLock(object):
    def __enter__(self):
        return self

    def __exit__(self, *a):
        return False
