"""A minimal ASGI 3 HTTP server driver and an independent protocol monitor."""
import asyncio

from vf.core import HarnessError, Violation
from vf.drivers.wsgi import percent_decode_bytes

_LOOP = None


def loop():
    global _LOOP
    if _LOOP is None or _LOOP.is_closed():
        _LOOP = asyncio.new_event_loop()
        asyncio.set_event_loop(_LOOP)
    return _LOOP


def run(coro):
    lp = loop()
    try:
        return lp.run_until_complete(coro)
    except BaseException:
        # a verdict raised in mid-run must not leave tasks behind for the next case (state shared between
        # cases would make verdicts depend on history)
        try:
            pending = [t for t in asyncio.all_tasks(lp) if not t.done()]
            for t in pending:
                t.cancel()
            if pending:
                lp.run_until_complete(asyncio.gather(*pending, return_exceptions=True))
        except BaseException:
            global _LOOP
            _LOOP = None
        raise


def build_scope(method='GET', raw_path='/', query='', headers=(), scheme='http',
                server=('falconframework.org', 80), client=('127.0.0.1', 4711), root_path='',
                http_version='1.1', spec_version='2.1', extra=None, type_='http'):
    path_bytes = percent_decode_bytes(raw_path)
    scope = {
        'type': type_,
        'asgi': {'version': '3.0', 'spec_version': spec_version},
        'http_version': http_version,
        'method': method,
        'scheme': scheme,
        'path': path_bytes.decode('utf-8', 'replace'),
        'raw_path': raw_path.encode('latin-1'),
        'query_string': query.encode('latin-1'),
        'root_path': root_path,
        'headers': [(k.lower().encode('latin-1'), v.encode('latin-1')) for k, v in headers],
    }
    if client is not _OMIT:
        scope['client'] = list(client) if client is not None else None
    if server is not _OMIT:
        scope['server'] = list(server) if server is not None else None
    if extra:
        scope.update(extra)
    return scope


class _Omit(object):
    def __repr__(self):
        return 'OMIT'


_OMIT = _Omit()
OMIT = _OMIT


def body_events(body, chunks=None, disconnect_after=None):
    """Chunk `body` at the given sizes into http.request events."""
    if not chunks:
        return [{'type': 'http.request', 'body': body, 'more_body': False}]
    out = []
    pos = 0
    i = 0
    while pos < len(body):
        n = max(1, chunks[i % len(chunks)])
        out.append({'type': 'http.request', 'body': body[pos:pos + n], 'more_body': True})
        pos += n
        i += 1
    if out:
        out[-1]['more_body'] = False
    else:
        out.append({'type': 'http.request', 'body': b'', 'more_body': False})
    return out


class SendError(Exception):
    """Injected: the server failed to send (client went away)."""


class AsgiResult(object):
    def __init__(self):
        self.events = []
        self.receive_calls = 0
        self.receive_after_end = 0
        self.error = None
        self.send_failed_at = None
        self.blocked_forever = False

    @property
    def start(self):
        for e in self.events:
            if e.get('type') == 'http.response.start':
                return e
        return None

    @property
    def code(self):
        return self.start['status']

    @property
    def headers(self):
        return [(k.decode('latin-1'), v.decode('latin-1')) for k, v in self.start.get('headers', [])]

    def header_list(self, name):
        name = name.lower()
        return [v for k, v in self.headers if k.lower() == name]

    def header(self, name):
        vals = self.header_list(name)
        return vals[0] if vals else None

    @property
    def body(self):
        return b''.join(e.get('body', b'') for e in self.events if e.get('type') == 'http.response.body')


def call(app, scope, events=None, fail_send_at=None, monitor=True, disconnect_when_drained=True, timeout=30, fail_kind=None):
    """Run one HTTP request against an ASGI app; returns AsgiResult.

    `events` is the scripted list returned by receive(); when exhausted,
    receive() returns http.disconnect (a server does that once the client is
    gone / the response is complete) and counts the call.
    """
    res = AsgiResult()
    script = list(events if events is not None else [{'type': 'http.request', 'body': b'', 'more_body': False}])
    state = {'i': 0}

    async def receive():
        res.receive_calls += 1
        i = state['i']
        if i < len(script):
            state['i'] = i + 1
            await asyncio.sleep(0)
            return dict(script[i])
        res.receive_after_end += 1
        if not disconnect_when_drained:
            res.blocked_forever = True
            await asyncio.Event().wait()
        await asyncio.sleep(0)
        return {'type': 'http.disconnect'}

    async def send(event):
        n = len(res.events)
        if fail_send_at is not None and n >= fail_send_at:
            if res.send_failed_at is None:
                res.send_failed_at = n
            if fail_kind == 'cancel':
                # what a server does when the client goes away while the app awaits send(): it cancels the app's task
                raise asyncio.CancelledError()
            raise SendError('client disconnected at send %d' % n)
        if monitor:
            check_event(res.events, event)
        res.events.append(event)
        await asyncio.sleep(0)

    async def main():
        try:
            await asyncio.wait_for(app(scope, receive, send), timeout)
        except Violation:
            raise
        except asyncio.TimeoutError:
            raise HarnessError('ASGI app did not finish within %ss' % timeout)
        except asyncio.CancelledError as e:
            if fail_kind != 'cancel' or res.send_failed_at is None:
                raise
            res.error = e  # the injected cancellation came out of the app, as it must
        except Exception as e:  # noqa
            res.error = e

    run(main())
    if monitor and res.error is None and fail_send_at is None:
        check_complete(res.events)
    return res


def check_event(prev, event):
    """Independent ASGI HTTP response-event grammar check (incremental)."""
    if type(event) is not dict:
        raise Violation('asgi_event_type', 'event %r' % (event,))
    t = event.get('type')
    started = any(e['type'] == 'http.response.start' for e in prev)
    finished = any(e['type'] == 'http.response.body' and not e.get('more_body', False) for e in prev)
    if finished:
        raise Violation('asgi_event_after_end', 'event %r after the final body event' % (t,))
    if t == 'http.response.start':
        if started:
            raise Violation('asgi_start_twice', 'second http.response.start')
        st = event.get('status')
        if type(st) is not int or not (100 <= st <= 999):
            raise Violation('asgi_status', 'status %r' % (st,))
        hs = event.get('headers', [])
        if not isinstance(hs, (list, tuple)):
            raise Violation('asgi_headers_type', type(hs).__name__)
        for item in hs:
            if not isinstance(item, (list, tuple)) or len(item) != 2:
                raise Violation('asgi_header_item', repr(item))
            k, v = item
            if type(k) is not bytes or type(v) is not bytes:
                raise Violation('asgi_header_types', '%r: %r' % (k, v))
            if k != k.lower():
                raise Violation('asgi_header_name_case', 'header name %r is not lower-case' % k)
            if not k or any(c <= 32 or c >= 127 or c in b'()<>@,;:\\"/[]?={}' for c in k):
                raise Violation('asgi_header_name', 'header name %r is not a token' % k)
            if b'\r' in v or b'\n' in v or b'\x00' in v:
                raise Violation('asgi_header_value_ctl', '%r: %r' % (k, v))
    elif t == 'http.response.body':
        if not started:
            raise Violation('asgi_body_before_start', 'http.response.body before http.response.start')
        b = event.get('body', b'')
        if type(b) is not bytes:
            raise Violation('asgi_body_type', 'body of type %s' % type(b).__name__)
        mb = event.get('more_body', False)
        if type(mb) is not bool:
            raise Violation('asgi_more_body_type', repr(mb))
    else:
        raise Violation('asgi_unknown_event', repr(t))


def check_complete(events):
    if not any(e['type'] == 'http.response.start' for e in events):
        raise Violation('asgi_no_start', 'app returned without http.response.start; events=%r' % (events,))
    if not any(e['type'] == 'http.response.body' and not e.get('more_body', False) for e in events):
        raise Violation('asgi_no_final_body', 'app returned without a final http.response.body event')
