"""A minimal PEP 3333 server and an independent protocol monitor.

Nothing here comes from falcon or falcon.testing: environ is built the way a
CGI-style server (wsgiref, gunicorn) builds it from the raw request line.
"""
import io
import re
import sys

from vf.core import Violation

_TOKEN = re.compile(r"^[!#$%&'*+\-.^_`|~0-9A-Za-z]+$")
_STATUS = re.compile(r'^\d{3} [^\r\n]*$')


def percent_decode_bytes(raw):
    """raw: ASCII str with %XX escapes -> bytes (malformed escapes kept literally)."""
    b = raw.encode('latin-1')
    out = bytearray()
    i = 0
    hexd = b'0123456789abcdefABCDEF'
    while i < len(b):
        if b[i] == 0x25 and i + 2 < len(b) and b[i + 1] in hexd and b[i + 2] in hexd:
            out.append(int(b[i + 1:i + 3], 16))
            i += 3
        else:
            out.append(b[i])
            i += 1
    return bytes(out)


class TransientInputError(OSError):
    """Injected: the server's read failed (timed out) without consuming any byte."""


class Input(object):
    """wsgi.input over a byte string; records the sizes requested and the cursor."""

    def __init__(self, data, short=None, fail_at=None):
        self.data = data
        self.pos = 0
        self.calls = []
        self.short = short  # optional list of max sizes per read (short reads)
        # indexes of calls that fail with a transient error (a socket timeout) WITHOUT consuming anything
        self.fail_at = frozenset(fail_at or ())
        self.failed = 0

    def _maybe_fail(self):
        if (len(self.calls) - 1) in self.fail_at:
            self.failed += 1
            raise TransientInputError('injected: wsgi.input call %d timed out' % (len(self.calls) - 1))

    def _take(self, n):
        if self.short:
            cap = self.short[len(self.calls) % len(self.short)]
            if cap:
                n = min(n, cap)
        chunk = self.data[self.pos:self.pos + n]
        self.pos += len(chunk)
        return chunk

    def read(self, size=-1):
        self.calls.append(('read', size))
        self._maybe_fail()
        if size is None or size < 0:
            size = len(self.data) - self.pos
        return self._take(size)

    def readline(self, size=-1):
        self.calls.append(('readline', size))
        self._maybe_fail()
        end = self.data.find(b'\n', self.pos)
        end = len(self.data) if end < 0 else end + 1
        n = end - self.pos
        if size is not None and size >= 0:
            n = min(n, size)
        chunk = self.data[self.pos:self.pos + n]
        self.pos += len(chunk)
        return chunk

    def readlines(self, hint=-1):
        self.calls.append(('readlines', hint))
        out = []
        total = 0
        while True:
            ln = self.readline()
            if not ln:
                break
            out.append(ln)
            total += len(ln)
            if hint is not None and hint > 0 and total >= hint:
                break
        return out

    def __iter__(self):
        return self

    def __next__(self):
        ln = self.readline()
        if not ln:
            raise StopIteration
        return ln


def build_environ(method='GET', raw_path='/', query='', headers=(), body=b'', scheme='http',
                  server=('falconframework.org', 80), client=('127.0.0.1', 4711), root_path='',
                  http_version='1.1', input_obj=None, file_wrapper=None, extra=None):
    """headers: list of (name, value) str pairs as they appear on the wire."""
    path_bytes = percent_decode_bytes(raw_path)
    env = {
        'REQUEST_METHOD': method,
        'SCRIPT_NAME': root_path,
        'PATH_INFO': path_bytes.decode('latin-1'),
        'QUERY_STRING': query,
        'SERVER_NAME': server[0],
        'SERVER_PORT': str(server[1]),
        'SERVER_PROTOCOL': 'HTTP/' + http_version,
        'REMOTE_ADDR': client[0],
        'REMOTE_PORT': str(client[1]),
        'wsgi.version': (1, 0),
        'wsgi.url_scheme': scheme,
        'wsgi.input': input_obj if input_obj is not None else Input(body),
        'wsgi.errors': io.StringIO(),
        'wsgi.multithread': False,
        'wsgi.multiprocess': True,
        'wsgi.run_once': False,
        'RAW_URI': raw_path + ('?' + query if query else ''),
        'REQUEST_URI': raw_path + ('?' + query if query else ''),
    }
    merged = {}
    order = []
    for name, value in headers:
        key = name.upper().replace('-', '_')
        if key not in merged:
            merged[key] = value
            order.append(key)
        else:
            sep = '; ' if key == 'COOKIE' else ','
            merged[key] = merged[key] + sep + value
    for key in order:
        if key in ('CONTENT_TYPE', 'CONTENT_LENGTH'):
            env[key] = merged[key]
        else:
            env['HTTP_' + key] = merged[key]
    if file_wrapper is not None:
        env['wsgi.file_wrapper'] = file_wrapper
    if extra:
        env.update(extra)
    return env


class WsgiResult(object):
    def __init__(self):
        self.status = None
        self.headers = None
        self.start_calls = 0
        self.chunks = []
        self.closed = 0
        self.iterable = None
        self.error = None  # exception that escaped the app / iteration
        self.write_failed_at = None

    @property
    def body(self):
        return b''.join(self.chunks)

    @property
    def code(self):
        return int(self.status[:3])

    def header_list(self, name):
        name = name.lower()
        return [v for k, v in self.headers if k.lower() == name]

    def header(self, name):
        vals = self.header_list(name)
        return vals[0] if vals else None


class FileWrapper(object):
    """A wsgi.file_wrapper as offered by servers."""

    def __init__(self, filelike, blksize=8192):
        self.filelike = filelike
        self.blksize = blksize
        if hasattr(filelike, 'close'):
            self.close = filelike.close

    def __iter__(self):
        return self

    def __next__(self):
        data = self.filelike.read(self.blksize)
        if data:
            return data
        raise StopIteration


class ServerWriteError(Exception):
    """Injected: the connection broke while the server was writing."""


def call(app, environ, fail_write_at=None, monitor=True):
    """Run one request the way a server does; returns WsgiResult.

    Protocol errors raise Violation when `monitor` is set.  An exception that
    escapes from app() or from iterating the body is stored in result.error
    (callers decide whether that is allowed).
    """
    res = WsgiResult()

    def start_response(status, headers, exc_info=None):
        res.start_calls += 1
        if monitor:
            if res.start_calls > 1 and exc_info is None:
                raise Violation('wsgi_start_response_twice', 'start_response called %d times' % res.start_calls)
            if res.chunks:
                raise Violation('wsgi_start_after_body', 'start_response called after body output began')
            _check_status_headers(status, headers)
        res.status = status
        res.headers = list(headers)
        return lambda data: res.chunks.append(data)

    iterable = None
    try:
        iterable = app(environ, start_response)
        res.iterable = iterable
        if monitor and res.start_calls == 0 and not hasattr(iterable, '__next__'):
            # start_response may legally be delayed until the first iteration for generators only
            raise Violation('wsgi_no_start_response', 'app returned without calling start_response')
        n = 0
        for chunk in iterable:
            if monitor:
                if res.start_calls == 0:
                    raise Violation('wsgi_body_before_start', 'body chunk before start_response')
                if not isinstance(chunk, bytes):
                    raise Violation('wsgi_body_not_bytes', 'body item of type %s' % type(chunk).__name__)
            if fail_write_at is not None and n == fail_write_at:
                res.write_failed_at = n
                raise ServerWriteError('connection reset at write %d' % n)
            res.chunks.append(chunk)
            n += 1
    except Violation:
        raise
    except ServerWriteError:
        pass
    except Exception as e:  # noqa
        res.error = e
    finally:
        if iterable is not None and hasattr(iterable, 'close'):
            try:
                iterable.close()
                res.closed += 1
            except Exception as e:  # noqa
                if res.error is None:
                    res.error = e
    return res


def _check_status_headers(status, headers):
    if type(status) is not str:
        raise Violation('wsgi_status_type', 'status is %s %r' % (type(status).__name__, status))
    if not _STATUS.match(status):
        raise Violation('wsgi_status_line', 'status line %r' % status)
    if type(headers) is not list:
        raise Violation('wsgi_headers_type', 'headers is %s' % type(headers).__name__)
    for item in headers:
        if type(item) is not tuple or len(item) != 2:
            raise Violation('wsgi_header_item', 'header item %r' % (item,))
        k, v = item
        if type(k) is not str or type(v) is not str:
            raise Violation('wsgi_header_types', 'header %r: %r (types %s, %s)' % (k, v, type(k).__name__, type(v).__name__))
        if not _TOKEN.match(k):
            raise Violation('wsgi_header_name', 'header name %r is not a token' % k)
        try:
            v.encode('latin-1')
        except UnicodeEncodeError:
            raise Violation('wsgi_header_value_not_latin1', 'header %s: %r' % (k, v))
        if '\r' in v or '\n' in v or '\x00' in v:
            raise Violation('wsgi_header_value_ctl', 'header %s: %r' % (k, v))
