#!/bin/sh
# confirm + evaluate every finished round-2 seed that is not stored yet
cd /verif
for d in /tmp/seed2-*/_out /tmp/seed3-*/_out /tmp/seed4-*/_out /tmp/seed5-*/_out /tmp/seed6-*/_out /tmp/seed7-*/_out /tmp/seed8-*/_out /tmp/seed9-*/_out /tmp/seed10-*/_out /tmp/seed11-*/_out; do
  [ -d "$d" ] || continue
  r=$(basename $(dirname $d) | sed "s/seed\([0-9]*\)-.*/\1/"); p=$(basename $(dirname $d) | sed "s/seed[0-9]*-//")
  for k in 1 2; do
    id="$p-r$r-$k"
    [ -f "$d/meta$k.json" ] && [ -f "$d/change$k.diff" ] && [ -f "$d/demo$k.py" ] || continue
    [ -d "seeded/$id" ] && continue
    [ -f "/tmp/seedq-$id.tried" ] && continue
    touch /tmp/seedq-$id.tried
    echo "=== $id"
    tools/seeded.py confirm $d $k $id && tools/seeded.py eval $id
  done
done
