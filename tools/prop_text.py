#!/venv/bin/python
import json, sys
for l in open('/verif/properties.jsonl'):
    p = json.loads(l)
    if p['id'] == sys.argv[1]:
        print('Property %s — %s\n' % (p['id'], p['title']))
        print('Statement: ' + p['statement'] + '\n')
        print('Quantified over: ' + p['quantifier']['text'] + '\n')
        print('Code it is anchored in: ' + ', '.join(p['anchors']['files']))
