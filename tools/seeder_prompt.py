#!/venv/bin/python
"""Prints the prompt for an independent breakage agent (property text only; nothing from /verif)."""
import subprocess, sys
pid = sys.argv[1]
round2 = len(sys.argv) > 2 and sys.argv[2] == '2'
wt = 'seed2-' + pid if round2 else 'seed-' + pid
text = subprocess.check_output(['/verif/tools/prop_text.py', pid]).decode()
KINDS2 = '''This time the two changes must be of these kinds: change 1 manifests ONLY through a multi-step history on the same object / app / connection (an earlier operation sets up state that a later one trips over), or through a particular interleaving or a fault injected at a particular point — never through a single call on fresh state; change 2 consists of TWO cooperating edits at different sites (possibly different files) that each look harmless and each alone keeps the property intact, but together break it. Avoid the most obvious single-line condition flips.

'''
print('''You are a software engineer asked to produce realistic REGRESSIONS of the Python web framework falconry/falcon for a mutation-style study. You work ONLY inside your own scratch git worktree of the repository: /tmp/%(wt)s (a checkout of the current HEAD, pure-Python sources). Never read or write anything under /verif, never touch /repo, never use git commands that affect other worktrees (no `git worktree`, no `git checkout` of branches; `git diff` and `git checkout -- <file>` inside your worktree are fine; do NOT use `git stash` — the stash is shared between all worktrees of the repository and other engineers are working in sibling worktrees; keep your variants as diff files and use `git apply` / `git apply -R`).

Here is a semantic property that falcon is supposed to satisfy:

%(text)s
Your task: produce TWO different changes to the falcon source (each a small patch, 1-15 changed lines, to files under falcon/ in your worktree; different mechanisms / different code sites from each other) such that each change
  (1) BREAKS the property above — some input / sequence of operations / schedule for which the changed code violates the statement, while the unchanged code satisfies it;
  (2) still imports and passes the repository's existing test-suite: run `cd /tmp/%(wt)s && PYTHONPATH=/tmp/%(wt)s /venv/bin/python -m pytest tests -q -p no:cacheprovider -n 8 --timeout=900 --continue-on-collection-errors 2>&1 | tail -5` (baseline on the unchanged worktree: 3440 passed plus 16 pre-existing collection errors in tests/test_uri_templates.py and one expected failure tests/test_cython.py::TestCythonized::test_imported_from_c_modules because compiled modules are absent — those are not yours). Your change must not add any new failing test. Do not edit the tests;
  (3) needs something SPECIFIC to manifest — a particular interleaving, a fault at a particular point, a multi-step sequence of operations, an unusual input (a boundary length, a rare character class, a specific option combination), or two cooperating sites that each look fine alone — NOT something ordinary use would expose at once. Think of the kind of subtle bug a plausible refactoring, optimisation or "simplification" would introduce;
  (4) comes with a demonstration: a small standalone Python program `demo.py` (run as `PYTHONPATH=/tmp/%(wt)s /venv/bin/python demo.py`, importing falcon from the worktree; it must only use public falcon APIs and the stdlib) that exits 0 and prints PASS on the unchanged source and exits 1 and prints FAIL (with what went wrong) with your change applied. Verify both directions yourself.

%(kinds)sDeliverables, in the directory /tmp/%(wt)s/_out/ (create it): for change k in {1,2}: `change<k>.diff` (output of `git diff` for that change alone, relative to the worktree root), `demo<k>.py`, and `meta<k>.json` with keys: "property": "%(pid)s", "summary" (one sentence: what the change does), "needs" (what specific input/sequence/schedule it needs in order to manifest), "tests_run" (the exact command and its last line of output with the change applied), "demo_unchanged" and "demo_changed" (the outputs you observed). Leave the worktree's tracked files UNCHANGED at the end (git checkout -- falcon) so that only _out/ holds your results. Final message: a short summary of the two changes.''' % {'pid': pid, 'text': text, 'wt': wt, 'kinds': KINDS2 if round2 else ''})
