#!/bin/sh
# store + evaluate every finished property-preserving change that is not stored yet
cd /verif
for d in /tmp/benign-*/_out /tmp/benign2-*/_out /tmp/benign3-*/_out /tmp/benign4-*/_out; do
  [ -d "$d" ] || continue
  g=$(basename $(dirname $d) | sed "s/benign4-\(.*\)/\1d/; s/benign3-\(.*\)/\1c/; s/benign2-\(.*\)/\1b/; s/benign-//")
  for k in 1 2 3 4; do
    id="$g-$k"
    [ -f "$d/meta$k.json" ] && [ -f "$d/change$k.diff" ] || continue
    [ -d "benign/$id" ] && continue
    echo "=== $id"
    tools/benign.py add $d $k $id && tools/benign.py eval $id
  done
done
