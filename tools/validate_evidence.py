#!/venv/bin/python
import json, os, sys, glob
ROOT = os.path.dirname(os.path.dirname(os.path.abspath(__file__)))
sys.path.append(os.path.join(ROOT, '.deps'))
import jsonschema
sch = json.load(open('/root/.vp/EVIDENCE.schema.json'))
bad = 0
for f in sorted(glob.glob(os.path.join(ROOT, 'evidence', 'C*.json'))):
    try:
        ev = json.load(open(f)); jsonschema.validate(ev, sch)
        c = ev['coverage']
        print('%s ok tier=%s eval=%d nontrivial=%d wall=%.0fs viol=%s' % (os.path.basename(f), ev['tier'], c['evaluations'], c['distinct_nontrivial'], ev['wall_s'], ev.get('violations')))
    except Exception as e:
        bad += 1; print(f, 'INVALID', str(e)[:300])
sys.exit(1 if bad else 0)
