#!/venv/bin/python
"""Regenerates MANIFEST.json from the table below (keeps it schema-valid)."""
import json, os, sys
ROOT = os.path.dirname(os.path.dirname(os.path.abspath(__file__)))
sys.path.insert(0, ROOT)
from tools.manifest_table import CHECKS, NOT_APPLICABLE, NOTES, SOURCE_COMMITS

m = {
    'version': 1,
    'setup_cmd': './setup.sh',
    'hooks': {
        'guard': 'FALCON_VERIF',
        'enable': 'no hooks are compiled into falconry/falcon; checks import the .py sources of /repo through vf/boot.py (FALCON_VERIF is exported but nothing in /repo reads it)',
        'baseline_off_cmd': 'cd /repo && /venv/bin/python -m pytest -ra -q -p no:cacheprovider --timeout=900 --continue-on-collection-errors',
        'source_commits': SOURCE_COMMITS,
        'add_only': True,
    },
    'engines': [
        {'name': 'vf', 'path': 'vf/run.py', 'serves_properties': [c['id'] for c in CHECKS],
         'kind_free_text': 'Hypothesis strategies + exhaustive enumerators over plain-data cases, sharded over 16 processes, explicit reference-model oracles, JSON replay files'},
    ],
    'checks': [],
    'notes': NOTES,
    'not_applicable': NOT_APPLICABLE,
}
for c in CHECKS:
    m['checks'].append({
        'property_id': c['id'],
        'quick_cmd': './check %s quick' % c['id'],
        'thorough_cmd': './check %s thorough' % c['id'],
        'replay_cmd_template': './check %s --replay {path}' % c['id'],
        'evidence_file': 'evidence/%s.json' % c['id'],
        'engine': 'vf',
        'technique': c['technique'],
        'level_claimed': {'category': c.get('level', 'exploration'), 'text': c['text'], 'design_ref': 'DESIGN.md#%s' % c['id']},
        'level_note': c['note'],
    })
json.dump(m, open(os.path.join(ROOT, 'MANIFEST.json'), 'w'), indent=1)
print('wrote MANIFEST.json with %d checks, %d not_applicable' % (len(m['checks']), len(NOT_APPLICABLE)))
try:
    sys.path.append(os.path.join(ROOT, '.deps'))
    import jsonschema
    jsonschema.validate(m, json.load(open('/root/.vp/MANIFEST.schema.json')))
    print('schema OK')
except ImportError:
    print('jsonschema not importable; not validated')
