#!/venv/bin/python
import sys, os
sys.path.insert(0, os.path.dirname(os.path.dirname(os.path.abspath(__file__))))
from vf import core
print('| id | property | disposition | what failed |')
print('|----|----------|-------------|-------------|')
for line in open('/verif/known_findings.jsonl'):
    line = line.strip()
    if not line or line.startswith('#'):
        continue
    e = core.loads(line)
    disp = 'fixed in %s' % e['commit'] if e['kind'] == 'fixed' else 'known finding'
    print('| %s | %s | %s | %s |' % (e['id'], e['property'], disp, e['what'].replace('|', '\\|')))
