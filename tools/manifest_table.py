SOURCE_COMMITS = []  # no hook commits; fix: commits are listed in known_findings.jsonl
NOTES = ('All checks are property-based: generated cases (Hypothesis / exhaustive enumeration) against explicit oracles; '
         'see DESIGN.md. falcon is imported from the .py sources of /repo (stale compiled modules bypassed).')
_ALL = ['C%02d' % i for i in range(1, 21)]
CHECKS = [
 {'id': 'C10',
  'technique': 'exhaustive short strings + Hypothesis strings vs byte-loop reference decoder/encoder, urllib differential, inverse and idempotence laws',
  'text': 'Every string of length <=4 (<=5 thorough) over a 17-symbol adversarial alphabet plus tens of thousands of long random strings are decoded/encoded by the real functions and compared with an independent reference and with urllib; encode/decode inverse, output alphabet, check-escaped passthrough/idempotence; parse_host over generated RFC 3986 authorities. Bounded-exhaustive + random exploration, not a proof.',
  'note': 'trusts CPython, Hypothesis, urllib.parse and the 15-line reference in vf/checks/c10_uri.py; Cython twin (cyutil/uri.pyx) cannot be rebuilt offline and is not covered; lone surrogates excluded'},
 {'id': 'C14',
  'technique': 'model-based operation histories (exhaustive short + Hypothesis long, nested sub-readers) vs byte-cursor reference model; step-budget livelock detection',
  'text': 'All histories of <=2 (quick) / <=3 (thorough) operations from a 15-operation alphabet over all data strings of length <=4/5 over {a,b,-}, chunk sizes 1-3 and two chunkings are run on the real sync and async BufferedReader and compared step by step (return value, DelimiterError, tell/eof, bytes requested from the source) with a 40-line cursor model; plus tens of thousands of random histories of <=10 operations with nested delimit() to depth 2, long data crossing the max-join threshold, declared max length below/equal/above the data. Bounded-exhaustive + random exploration.',
  'note': 'trusts the cursor model in vf/checks/c14_readers.py, CPython, Hypothesis; Cython reader not covered; parent operations while a child is half-read are outside the domain; async eof may lag (one-sided)'},
 {'id': 'C07',
  'technique': 'operation histories over body streams (exhaustive <=3 ops + Hypothesis) vs prefix/budget/position invariants over a reference cursor; instrumented wsgi.input and scripted ASGI receive',
  'text': 'All histories of <=3 operations (12-op WSGI alphabet, 10-op ASGI alphabet) over newline-rich bodies / event scripts and every Content-Length regime (absent, exact, shorter, longer) plus tens of thousands of random longer histories are run on the real BoundedStream objects obtained from falcon.Request / falcon.asgi.Request; after every step: bytes returned are a prefix of the declared body, sized reads within size, no end-of-stream report before the whole body, wsgi.input never read past Content-Length nor with unbounded size, ASGI receive never awaited after the terminal event, tell()/eof consistent. Bounded-exhaustive + random exploration.',
  'note': 'trusts the invariants in vf/checks/c07_streams.py and the fake server streams; negative sizes other than -1 and undocumented read/iterate mixes are outside the domain; known finding F21 excluded by a narrow predicate'},
 {'id': 'C01',
  'technique': 'model-based add/find histories vs reference DFS walk over the accepted template texts; metamorphic twin (accepted adds only, opposite compile flags); rejected-add no-op probe on a fresh router',
  'text': 'Random histories of add_route (accepted and rejected templates from a colliding vocabulary: literals incl. quote/backslash, simple, converter, multi-field and path fields; compile flag on/off) interleaved with lookups, then every path over the segment representatives of the accepted set, are compared with an independent recursive DFS reference (route template, resource identity, typed params); the same lookups run on a twin router built from the accepted adds only with opposite compile flags, and every rejected add is re-tried on a fresh router. Plus an exhaustive family of ordered selections from a 14-template pool. Exploration, not proof.',
  'note': 'trusts the reference walk in vf/checks/c01_router.py (greedy re semantics for multi-field segments, re-implemented int/uuid converter semantics); converter args containing } not generated'},
]
_claimed = {c['id'] for c in CHECKS}
NOT_APPLICABLE = [{'property_id': p, 'reason': 'check not built yet (work in progress; the technique applies, see DESIGN.md)'} for p in _ALL if p not in _claimed]
