SOURCE_COMMITS = []
NOTES = ('All checks are property-based: generated cases (Hypothesis / exhaustive enumeration) against explicit oracles; '
         'see DESIGN.md. falcon is imported from the .py sources of /repo (stale compiled modules bypassed).')
_ALL = ['C%02d' % i for i in range(1, 21)]
CHECKS = [
 {'id': 'C10',
  'technique': 'exhaustive short strings + Hypothesis strings vs byte-loop reference decoder/encoder, urllib differential, inverse and idempotence laws',
  'text': 'Every string of length <=4 (<=5 thorough) over a 17-symbol adversarial alphabet plus tens of thousands of long random strings are decoded/encoded by the real functions and compared with an independent reference and with urllib; encode/decode inverse, output alphabet, check-escaped passthrough/idempotence; parse_host over generated RFC 3986 authorities. Bounded-exhaustive + random exploration, not a proof.',
  'note': 'trusts CPython, Hypothesis, urllib.parse and the 15-line reference in vf/checks/c10_uri.py; Cython twin (cyutil/uri.pyx) cannot be rebuilt offline and is not covered; lone surrogates excluded'},
]
_claimed = {c['id'] for c in CHECKS}
NOT_APPLICABLE = [{'property_id': p, 'reason': 'check not built yet (work in progress; the technique applies, see DESIGN.md)'} for p in _ALL if p not in _claimed]
