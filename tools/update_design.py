#!/venv/bin/python
"""Regenerates the generated tables inside DESIGN.md (findings, mutants, seeded changes)."""
import json, os, re, subprocess, sys
ROOT = os.path.dirname(os.path.dirname(os.path.abspath(__file__)))
p = os.path.join(ROOT, 'DESIGN.md')
s = open(p).read()


def put(name, text):
    global s
    b, e = '<!-- %s:BEGIN -->' % name, '<!-- %s:END -->' % name
    if b in s:
        s = s[:s.index(b) + len(b)] + '\n' + text + '\n' + s[s.index(e):]
    else:
        s = s.replace(name + '_TABLE', b + '\n' + text + '\n' + e)


put('FINDINGS', subprocess.check_output([os.path.join(ROOT, 'tools', 'findings_table.py')]).decode().strip())

lines = ['**Hand-written mutants** (`selftest/<ID>.json`; result of the last `tools/mutants.py <ID>` run recorded in `selftest/results.json`):', '']
res = {}
rp = os.path.join(ROOT, 'selftest', 'results.json')
if os.path.exists(rp):
    res = json.load(open(rp))
lines += ['| property | mutants | caught | survivors |', '|---|---|---|---|']
for fn in sorted(os.listdir(os.path.join(ROOT, 'selftest'))):
    if not re.match(r'C\d+\.json$', fn):
        continue
    pid = fn[:-5]
    muts = json.load(open(os.path.join(ROOT, 'selftest', fn)))
    r = res.get(pid, {})
    caught = [m['name'] for m in muts if str(r.get(m['name'], '')).startswith('rc=1')]
    surv = ['%s%s' % (m['name'], ' (declared equivalent)' if m.get('equivalent') else '') for m in muts if m['name'] in r and not str(r[m['name']]).startswith('rc=1')]
    lines.append('| %s | %d | %s | %s |' % (pid, len(muts), len(caught) if r else 'not run', ', '.join(surv) or '-'))
lines += ['', '**Independently seeded changes** (`seeded/<id>/`, written by sub-agents that saw only the property text):', '',
          '| id | property | what the change does | needs | quick | thorough | caught by |', '|---|---|---|---|---|---|---|']
sd = os.path.join(ROOT, 'seeded')
if os.path.isdir(sd):
    for ident in sorted(os.listdir(sd)):
        mp = os.path.join(sd, ident, 'meta.json')
        if not os.path.exists(mp):
            continue
        m = json.load(open(mp))
        ev = m.get('evaluation', {})
        def cell(t):
            if t not in ev:
                return 'not run'
            return 'DETECTED' if ev[t]['detected'] else 'missed (exit %d)' % ev[t]['exit']
        by = ''
        rel = [k for k, v in ev.items() if ' via ' in k and v.get('detected')]
        for t in ('quick', 'thorough'):
            if t in ev and ev[t].get('first_violation'):
                by = ev[t]['first_violation'].split(':')[0].replace('suite=', '')
                break
        lines.append('| %s | %s | %s | %s | %s | %s | %s |' % (ident, m.get('property'), (m.get('summary') or '').replace('|', '/')[:160],
                                                               (m.get('needs') or '').replace('|', '/')[:160], cell('quick') + (' (' + ', '.join(rel) + ': DETECTED)' if rel else ''), cell('thorough'), by))
put('SENSITIVITY', '\n'.join(lines))
open(p, 'w').write(s)
print('DESIGN.md tables updated')
