#!/venv/bin/python
"""Sensitivity self-test: apply each hand-written mutant of selftest/<ID>.json to a scratch copy of /repo
and run `./check <ID> quick` against it (VERIF_REPO); the check must exit 1.

  tools/mutants.py C18 [name-substring]
Scratch copies live under $TMPDIR and are removed afterwards; /repo is never touched.
"""
import json, os, shutil, subprocess, sys, tempfile, time
ROOT = os.path.dirname(os.path.dirname(os.path.abspath(__file__)))


def main():
    prop = sys.argv[1]
    only = sys.argv[2] if len(sys.argv) > 2 else ''
    muts = json.load(open(os.path.join(ROOT, 'selftest', prop + '.json')))
    base = tempfile.mkdtemp(prefix='vf-mut-')
    results = []
    try:
        subprocess.check_call(['rsync', '-a', '--exclude', '*.so', '--exclude', '.git', '--exclude', '__pycache__',
                               '--exclude', 'docs', '--exclude', 'tests', '/repo/', base + '/'])
        for m in muts:
            if only and only not in m['name']:
                continue
            path = os.path.join(base, m['file'])
            orig = open(path).read()
            if orig.count(m['old']) != 1:
                results.append((m['name'], 'PATCH-DOES-NOT-APPLY (%d matches)' % orig.count(m['old']))); print('%-40s %s' % results[-1])
                continue
            open(path, 'w').write(orig.replace(m['old'], m['new']))
            extra = []
            for e in m.get('also', []):
                ep = os.path.join(base, e['file'])
                eo = open(ep).read()
                assert eo.count(e['old']) == 1, (m['name'], e['file'])
                extra.append((ep, eo if ep != path else orig))
                open(ep, 'w').write(eo.replace(e['old'], e['new']))
            env = dict(os.environ, VERIF_REPO=base)
            if m.get('suites'):
                env['VERIF_SUITES'] = m['suites']
            t0 = time.time()
            p = subprocess.run([os.path.join(ROOT, 'check'), prop, 'quick'], env=env, capture_output=True, text=True)
            for ep, eo in extra:
                open(ep, 'w').write(eo)
            open(path, 'w').write(orig)
            line = [l for l in p.stdout.splitlines() if l.startswith('  suite=')]
            tag = ' [declared equivalent: %s]' % m['equivalent'] if m.get('equivalent') else ''
            results.append((m['name'], 'rc=%d %.0fs %s%s' % (p.returncode, time.time() - t0, (line[0][:230] if line else p.stdout[-300:]), tag)))
            print('%-40s %s' % results[-1]); sys.stdout.flush()
    finally:
        shutil.rmtree(base, ignore_errors=True)
        # replays produced by mutants are not evidence
        d = os.path.join(ROOT, 'replays', prop)
        if os.path.isdir(d):
            for fn in os.listdir(d):
                if not fn.startswith('fixed-'):
                    os.unlink(os.path.join(d, fn))
    rp = os.path.join(ROOT, 'selftest', 'results.json')
    allres = json.load(open(rp)) if os.path.exists(rp) else {}
    allres.setdefault(prop, {}).update({n: r[:200] for n, r in results})
    json.dump(allres, open(rp, 'w'), indent=1, sort_keys=True)
    caught = sum(1 for r in results if r[1].startswith('rc=1'))
    print('%s: %d/%d mutants caught' % (prop, caught, len(results)))


main()
