#!/venv/bin/python
"""Prints the prompt for an independent agent asked for PROPERTY-PRESERVING changes (false-alarm study).

  tools/benign_prompt.py <group>      group in G1..G5; the agent works in /tmp/benign-<group>
The agent gets the text of the group's properties and a scratch worktree; nothing from /verif.
"""
import subprocess, sys
GROUPS = {
    'G1': (['C01', 'C02', 'C16'], 'falcon/routing/*.py, falcon/app.py (routing / sink / static parts), falcon/responders.py'),
    'G2': (['C03', 'C04', 'C05', 'C06'], 'falcon/app.py, falcon/asgi/app.py, falcon/app_helpers.py, falcon/hooks.py, falcon/response.py, '
           'falcon/asgi/response.py, falcon/http_error.py, falcon/testing/client.py, falcon/testing/helpers.py'),
    'G3': (['C08', 'C09', 'C10', 'C11'], 'falcon/request.py, falcon/asgi/request.py, falcon/request_helpers.py, falcon/util/uri.py, '
           'falcon/util/mediatypes.py, falcon/forwarded.py, falcon/util/misc.py, falcon/media/handlers.py'),
    'G4': (['C07', 'C12', 'C13', 'C14', 'C15'], 'falcon/stream.py, falcon/asgi/stream.py, falcon/util/reader.py, falcon/asgi/reader.py, '
           'falcon/media/*.py, falcon/asgi/multipart.py, falcon/response.py, falcon/response_helpers.py'),
    'G5': (['C17', 'C18', 'C19', 'C20'], 'falcon/asgi/ws.py, falcon/asgi/app.py (websocket parts), falcon/middleware.py, falcon/app.py '
           '(construction / first-request paths), falcon/routing/compiled.py (locking / lazy compilation)'),
}
KINDS = {'4': '''The four changes must be CORRECT changes around SIZES, INTERNAL LIMITS and the ENVIRONMENT, one of each kind:
  change 1: change an INTERNAL constant that no property pins down - a read / stream block size, a default buffer or chunk size that is not documented, the size of a memo table or LRU cache, a pre-allocation size, a batch size - to another reasonable value (both smaller and larger values are of interest; do not touch documented defaults);
  change 2: add, remove or restructure a CACHE / memoisation / precomputed table so that results stay identical for every input, every history of calls and under concurrent use (bounded, correctly invalidated, no shared mutable results);
  change 3: a correct rewrite of code that handles LARGE inputs or MANY items: replace repeated concatenation by a join, a list by a generator (or back), recursion by iteration, a quadratic scan by a dict / set lookup, several small reads by one bulk read or the reverse - with identical results at every size, including the empty and the single-item case;
  change 4: make code INDEPENDENT of the process environment in an equivalent way, or restructure environment-related code without changing results in any environment: e.g. replace naive-UTC datetime arithmetic by aware-UTC arithmetic with identical output, replace a locale-dependent call by a locale-independent one that gives the same result in every locale, replace an assert used for an internal invariant by an explicit check that raises the same error, move the reading of an environment variable from import time to an equivalent cached helper.

''', '3': '''The four changes must be CORRECT rewrites of the RISKIEST kinds of code, one of each kind:
  change 1: a rewrite of an ERROR / CLEAN-UP path that is still complete and exact: restructure a try / except / finally, narrow or widen an except clause without changing which documented errors come out, close or release something at an equivalent earlier or later point (still exactly once, also when something fails or the task is cancelled);
  change 2: a rewrite of CONCURRENCY- or STATE-related code that is still safe: narrow a lock's scope without opening a window, replace a per-call allocation by a safely shared immutable object, reorder the publication of state so that readers still never see a half-built state, make a lazily built table eager;
  change 3: replace a PRIMITIVE by an equivalent one for every input in the domain: a regular expression by string methods or vice versa, a chain of ifs by a table, partition by split with a max count, str.format by an f-string, a manual loop by a library call - think hard about the corner cases (empty input, repeated separators, non-ASCII, case, trailing characters) and only deliver it if it is really equivalent;
  change 4: REORDER statements, checks or header / attribute assignments whose order is not observable through any property (two independent validations that raise the same documented error for overlapping inputs are NOT independent if they raise different errors - be careful).

''', '1': '''The four changes must be of these kinds, one each:
  change 1: a pure REFACTORING of code the properties depend on — restructure control flow, extract or inline a helper, rename private attributes / local variables / private methods, replace a loop by a comprehension or vice versa — with identical observable behaviour;
  change 2: a correct PERFORMANCE OPTIMISATION of code the properties depend on — a fast path, a cache, avoiding a copy, precomputing a table — whose result is identical to the general path for every input (be careful: it really must be identical);
  change 3: a change of behaviour the properties deliberately leave OPEN — e.g. the wording of an error title / description / exception message, the text of a log or warning, a repr, the order of response headers where order carries no meaning, the exact value chosen where the property allows several — while everything the properties do pin down stays the same;
  change 4: a small backwards-compatible FEATURE ADDITION touching the same code — a new optional argument, option or method whose default keeps today's behaviour exactly.

''', '2': '''The four changes must sit AS CLOSE TO THE BOUNDARY of what the properties pin down as possible WITHOUT crossing it, one of each kind:
  change 1: STRICTER input handling where a property explicitly allows either outcome (e.g. "either returns a lenient reading or raises a 400-class error", "malformed ... stay literal" is pinned but "invalid input is rejected cleanly" is open): turn one lenient reading of INVALID input into the documented error, without touching any valid input;
  change 2: MORE LENIENT handling of input that is invalid or outside a property's domain (tolerate surrounding white space, accept an additional spelling, accept an additional argument type), with every valid input and every pinned-down result unchanged;
  change 3: a change of INTERNAL DATA STRUCTURE or of caching that is really correct for every history and schedule: e.g. replace a list by a tuple or a dict by two lists, cache the result of a PURE function whose result is immutable, build a table lazily but under a lock, re-use an immutable constant object - think hard about aliasing, mutation by callers, cache invalidation and thread-safety, and only deliver it if it is truly unobservable;
  change 4: a change of something observable that the properties do NOT mention at all: the ORDER of response headers or of dict keys where no property fixes it, additional (not fewer) log / debug output, an extra informational attribute or header that no property forbids, a different but valid choice where a property says several are acceptable.

'''}
g = sys.argv[1]
rnd = sys.argv[2] if len(sys.argv) > 2 else '1'
wt = 'benign-' if rnd == '1' else 'benign%s-' % rnd
pids, files = GROUPS[g]
texts = '\n'.join(subprocess.check_output(['/verif/tools/prop_text.py', p]).decode() for p in pids)
print('''You are a maintainer of the Python web framework falconry/falcon. You work ONLY inside your own scratch git worktree of the repository: /tmp/%(wt)s%(g)s (a checkout of the current HEAD, pure-Python sources). Never read or write anything under /verif, never touch /repo, never use `pkill` / `killall` or any pattern-based kill, never use git commands that affect other worktrees (no `git worktree`, no `git checkout` of branches, no `git stash`; `git diff`, `git apply`, `git apply -R` and `git checkout -- <file>` inside your worktree are fine).

Here are semantic properties that falcon satisfies today and must KEEP satisfying:

%(texts)s
Your task: produce FOUR different, realistic, CORRECT changes to the falcon source — the kind of pull request a maintainer would merge — in or around these files: %(files)s. Each change (5-40 changed lines) must leave EVERY property above intact for every input, configuration, history and schedule the property quantifies over, and must import and pass the repository's existing test-suite: run `cd /tmp/%(wt)s%(g)s && PYTHONPATH=/tmp/%(wt)s%(g)s /venv/bin/python -m pytest tests -q -p no:cacheprovider -n 8 --timeout=900 --continue-on-collection-errors 2>&1 | tail -5` (baseline on the unchanged worktree: 3440 passed, 491 skipped, plus 8 pre-existing collection errors in tests/test_uri_templates.py). Do not edit the tests.

%(kinds)sFor each change, re-read the property statements and convince yourself that none of them can tell the difference (if you are not sure, pick a different change). Deliverables, in the directory /tmp/%(wt)s%(g)s/_out/ (create it): for change k in {1,2,3,4}: `change<k>.diff` (output of `git diff` for that change alone, relative to the worktree root) and `meta<k>.json` with keys: "group": "%(g)s", "kind" (two or three words naming the kind of change), "summary" (one sentence), "why_preserving" (one or two sentences: why no listed property can observe it), "tests_run" (the exact command and its last line of output with the change applied). Leave the worktree's tracked files UNCHANGED at the end (git checkout -- falcon) so that only _out/ holds your results. Final message: a short summary of the four changes.''' % {'g': g, 'texts': texts, 'files': files, 'wt': wt, 'kinds': KINDS[rnd]})
