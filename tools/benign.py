#!/venv/bin/python
"""Property-preserving changes written by independent agents (false-alarm study): confirm, store, evaluate.

  tools/benign.py add <src_dir> <k> <id>    confirm change<k>.diff from an agent's _out dir applies and keeps the repository's
                                            test-suite green (pure-Python scratch copy), store it as benign/<id>/{patch.diff,meta.json}
  tools/benign.py eval <id> [props...]      apply benign/<id>/patch.diff to a scratch copy of /repo and run the quick checks of the
                                            group's properties (or the given ones) against it (VERIF_REPO); every check must exit 0
  tools/benign.py evalall
Scratch copies live under $TMPDIR and are removed afterwards; /repo is never modified.
"""
import json, os, shutil, subprocess, sys, time
ROOT = os.path.dirname(os.path.dirname(os.path.abspath(__file__)))
sys.path.insert(0, os.path.join(ROOT, 'tools'))
GROUPS = {'G1': ['C01', 'C02', 'C16'], 'G2': ['C03', 'C04', 'C05', 'C06'], 'G3': ['C08', 'C09', 'C10', 'C11'],
          'G4': ['C07', 'C12', 'C13', 'C14', 'C15'], 'G5': ['C17', 'C18', 'C19', 'C20']}
# which other checks exercise the files a group's changes touch
EXTRA = {'G1': ['C19', 'C06'], 'G2': ['C02', 'C19', 'C12'], 'G3': ['C06', 'C12', 'C04'], 'G4': ['C05', 'C06'], 'G5': ['C03', 'C01']}


def scratch(with_tests=False):
    import tempfile
    base = tempfile.mkdtemp(prefix='vf-benign-')
    ex = ['--exclude', '*.so', '--exclude', '.git', '--exclude', '__pycache__', '--exclude', 'docs']
    if not with_tests:
        ex += ['--exclude', 'tests']
    subprocess.check_call(['rsync', '-a'] + ex + ['/repo/', base + '/'])
    return base


class PatchError(Exception):
    pass


def apply(base, patch):
    r = subprocess.run(['patch', '-p1', '--no-backup-if-mismatch', '-i', patch], cwd=base, capture_output=True, text=True)
    if r.returncode != 0:
        raise PatchError('patch does not apply: %s %s' % (r.stdout[-500:], r.stderr[-500:]))


def add(src, k, ident):
    patch = os.path.join(src, 'change%s.diff' % k)
    meta = json.load(open(os.path.join(src, 'meta%s.json' % k)))
    base = scratch(with_tests=True)
    try:
        apply(base, patch)
        r = subprocess.run([os.path.join(ROOT, 'tools', 'repo_tests.py'), 'source'], env=dict(os.environ, VERIF_REPO=base),
                           capture_output=True, text=True)
        tail = r.stdout.strip().splitlines()[-3:]
        print('tests with change:', ' | '.join(tail))
        if r.returncode != 0:
            print('NOT STORED: the change breaks the existing test-suite')
            return 1
    finally:
        shutil.rmtree(base, ignore_errors=True)
    d = os.path.join(ROOT, 'benign', ident)
    os.makedirs(d, exist_ok=True)
    shutil.copy(patch, os.path.join(d, 'patch.diff'))
    json.dump({'id': ident, 'group': meta.get('group'), 'kind': meta.get('kind'), 'summary': meta.get('summary'),
               'why_preserving': meta.get('why_preserving'),
               'author': 'independent sub-agent given only the property texts and a scratch worktree',
               'tests_with_change': ' | '.join(tail)}, open(os.path.join(d, 'meta.json'), 'w'), indent=1)
    print('stored', d)
    return 0


def evaluate(ident, props=None):
    d = os.path.join(ROOT, 'benign', ident)
    meta = json.load(open(os.path.join(d, 'meta.json')))
    g = meta.get('group') or ident.split('-')[0]
    props = props or (GROUPS[g] + ([] if os.environ.get('BENIGN_NO_EXTRA') else EXTRA.get(g, [])))
    base = scratch()
    out = meta.setdefault('evaluation', {})
    try:
        apply(base, os.path.join(d, 'patch.diff'))
        for p in props:
            t0 = time.time()
            r = subprocess.run([os.path.join(ROOT, 'check'), p, 'quick'], env=dict(os.environ, VERIF_REPO=base), capture_output=True, text=True)
            line = [l for l in r.stdout.splitlines() if l.startswith('  suite=')]
            out[p] = {'exit': r.returncode, 'wall_s': round(time.time() - t0, 1), 'first': line[0].strip()[:400] if line else None,
                      'tail': (r.stdout + r.stderr).strip().splitlines()[-1][:300] if r.returncode else ''}
            print('%-8s %-4s exit=%d %4.0fs %s' % (ident, p, r.returncode, time.time() - t0,
                                                    (line[0].strip()[:200] if line else out[p]['tail'])))
            sys.stdout.flush()
            rd = os.path.join(ROOT, 'replays', p)
            if r.returncode == 1 and os.path.isdir(rd):
                keep = os.path.join(d, 'replays')
                os.makedirs(keep, exist_ok=True)
                for fn in os.listdir(rd):
                    if not fn.startswith('fixed-'):
                        shutil.move(os.path.join(rd, fn), os.path.join(keep, p + '-' + fn))
    finally:
        shutil.rmtree(base, ignore_errors=True)
    json.dump(meta, open(os.path.join(d, 'meta.json'), 'w'), indent=1)


def main():
    cmd = sys.argv[1]
    if cmd == 'add':
        sys.exit(add(sys.argv[2], sys.argv[3], sys.argv[4]))
    if cmd == 'eval':
        evaluate(sys.argv[2], sys.argv[3:] or None)
    if cmd == 'evalall':
        for ident in sorted(os.listdir(os.path.join(ROOT, 'benign'))):
            if os.path.exists(os.path.join(ROOT, 'benign', ident, 'meta.json')):
                try:
                    evaluate(ident)
                except PatchError as e:
                    print('%-8s PATCH DOES NOT APPLY to the current tree: %s' % (ident, str(e)[:200]))


main()
