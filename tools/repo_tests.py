#!/venv/bin/python
"""Validate a change to /repo with the repository's own test-suite.

  tools/repo_tests.py inplace   - baseline command in /repo (stale .so in use), compare with BASELINE.json
  tools/repo_tests.py source    - same suite on a scratch copy WITHOUT the .so files (pure-Python source),
                                  every stable test must pass except tests.test_cython...::test_imported_from_c_modules
Scratch copies live under $TMPDIR and are removed afterwards.
"""
import json, os, shutil, subprocess, sys, tempfile
import xml.etree.ElementTree as ET

BASE = json.load(open('/root/.vp/BASELINE.json'))
STABLE = set(BASE['stable_pass'])
EXPECTED_SOURCE_FAIL = {'tests.test_cython.TestCythonized::test_imported_from_c_modules'}


def run(cwd, extra_env=None):
    out = tempfile.mkdtemp(prefix='vf-junit-')
    xml = os.path.join(out, 'r.xml')
    env = dict(os.environ)
    env.update(extra_env or {})
    env.pop('FALCON_VERIF', None)
    cmd = ['/venv/bin/python', '-m', 'pytest', '-q', '-p', 'no:cacheprovider', '--timeout=900',
           '--continue-on-collection-errors', '-n', '16', '--junitxml=' + xml]
    p = subprocess.run(cmd, cwd=cwd, env=env, capture_output=True, text=True)
    passed, failed = set(), set()
    for tc in ET.parse(xml).getroot().iter('testcase'):
        tid = '%s::%s' % (tc.get('classname'), tc.get('name'))
        bad = any(ch.tag in ('failure', 'error') for ch in tc)
        skipped = any(ch.tag == 'skipped' for ch in tc)
        if bad:
            failed.add(tid)
        elif not skipped:
            passed.add(tid)
    shutil.rmtree(out, ignore_errors=True)
    return passed, failed, p.stdout[-1500:]


def main():
    mode = sys.argv[1]
    repo = os.environ.get('VERIF_REPO', '/repo')
    if mode == 'inplace':
        passed, failed, tail = run(repo)
        missing = STABLE - passed
        print(tail)
        print('inplace: passed=%d stable_missing=%d' % (len(passed), len(missing)))
        for m in sorted(missing)[:30]:
            print('  MISSING', m)
        return 1 if missing else 0
    scratch = tempfile.mkdtemp(prefix='vf-srconly-')
    try:
        subprocess.check_call(['rsync', '-a', '--exclude', '*.so', '--exclude', '.git', '--exclude', '__pycache__',
                               repo + '/', scratch + '/'])
        passed, failed, tail = run(scratch, {'PYTHONPATH': scratch})
        missing = (STABLE - passed) - EXPECTED_SOURCE_FAIL
        if 0 < len(missing) <= 25:
            # server / timing sensitive tests can fail on a loaded machine: retry each one alone
            for tid in sorted(missing):
                cls, name = tid.split('::', 1)
                parts = cls.split('.')
                node = None
                for i in range(len(parts), 0, -1):
                    f = os.path.join(scratch, *parts[:i]) + '.py'
                    if os.path.exists(f):
                        node = '::'.join([os.path.join(*parts[:i]) + '.py'] + parts[i:] + [name])
                        break
                if node is None:
                    continue
                env = dict(os.environ, PYTHONPATH=scratch)
                env.pop('FALCON_VERIF', None)
                r = subprocess.run(['/venv/bin/python', '-m', 'pytest', '-q', '-p', 'no:cacheprovider', '--timeout=900', node],
                                   cwd=scratch, env=env, capture_output=True, text=True)
                if r.returncode == 0 and ' passed' in r.stdout:
                    missing.discard(tid)
                    print('  retried alone and passed:', tid)
        print(tail)
        print('source-only: passed=%d stable_missing=%d' % (len(passed), len(missing)))
        for m in sorted(missing)[:30]:
            print('  MISSING', m)
        return 1 if missing else 0
    finally:
        shutil.rmtree(scratch, ignore_errors=True)


sys.exit(main())
