#!/venv/bin/python
"""For every entry of known_findings.jsonl: does its reproducer violate on $VERIF_REPO (default /repo)?"""
import os, sys
ROOT = os.path.dirname(os.path.dirname(os.path.abspath(__file__)))
sys.path.insert(0, ROOT)
from vf import boot, core
boot.import_falcon()
from vf import run as R
import importlib
for line in open(os.path.join(ROOT, 'known_findings.jsonl')):
    line = line.strip()
    if not line or line.startswith('#'): continue
    e = core.loads(line)
    mod = importlib.import_module(R.CHECK_MODULES[e['property']])
    s = {x.name: x for x in mod.SUITES}[e['suite']]
    s.setup()
    try:
        try:
            R.execute(s, e['case'], [], None); res = 'passes'
        except R.Violation as v:
            res = 'VIOLATES (%s)' % v.kind
    finally:
        s.teardown()
    print('%-4s %-5s %-6s %s' % (e['property'], e['id'], e['kind'], res))
