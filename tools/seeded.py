#!/venv/bin/python
"""Seeded (independently written) breaking changes: confirm, store, evaluate.

  tools/seeded.py confirm <src_dir> <k> <id>   confirm change<k>.diff/demo<k>.py/meta<k>.json from an agent's _out dir in a
                                               scratch copy (demo passes without / fails with the change, repo test-suite
                                               still green with it) and store it as seeded/<id>/{patch.diff,demo.py,meta.json}
  tools/seeded.py eval <id> [tier]             apply seeded/<id>/patch.diff to a scratch copy of /repo, run the property's
                                               check against it (VERIF_REPO), record the outcome in seeded/<id>/meta.json
  tools/seeded.py evalall [tier]               eval every stored change
Scratch copies live under $TMPDIR and are removed afterwards; /repo is never modified.
"""
import json, os, shutil, subprocess, sys, tempfile, time
ROOT = os.path.dirname(os.path.dirname(os.path.abspath(__file__)))
PY = '/venv/bin/python'


def scratch(with_tests=False):
    base = tempfile.mkdtemp(prefix='vf-seed-')
    ex = ['--exclude', '*.so', '--exclude', '.git', '--exclude', '__pycache__', '--exclude', 'docs']
    if not with_tests:
        ex += ['--exclude', 'tests']
    subprocess.check_call(['rsync', '-a'] + ex + ['/repo/', base + '/'])
    return base


class PatchError(Exception):
    pass


def apply(base, patch):
    r = subprocess.run(['patch', '-p1', '--no-backup-if-mismatch', '-i', patch], cwd=base, capture_output=True, text=True)
    if r.returncode != 0:
        raise PatchError('patch does not apply: %s %s' % (r.stdout[-500:], r.stderr[-500:]))


def run_demo(base, demo):
    r = subprocess.run([PY, demo], cwd=os.path.dirname(demo), env=dict(os.environ, PYTHONPATH=base, PYTHONDONTWRITEBYTECODE='1'),
                       capture_output=True, text=True, timeout=600)
    return r.returncode, (r.stdout + r.stderr)[-600:]


def confirm(src, k, ident):
    patch = os.path.join(src, 'change%s.diff' % k)
    demo = os.path.join(src, 'demo%s.py' % k)
    meta = json.load(open(os.path.join(src, 'meta%s.json' % k)))
    base = scratch(with_tests=True)
    try:
        rc0, out0 = run_demo(base, demo)
        apply(base, patch)
        rc1, out1 = run_demo(base, demo)
        print('demo unchanged: rc=%d %s' % (rc0, out0.strip()[-200:]))
        print('demo changed:   rc=%d %s' % (rc1, out1.strip()[-300:]))
        if rc0 != 0 or rc1 == 0:
            print('NOT CONFIRMED: demonstration does not discriminate')
            return 1
        r = subprocess.run([os.path.join(ROOT, 'tools', 'repo_tests.py'), 'source'], env=dict(os.environ, VERIF_REPO=base),
                           capture_output=True, text=True)
        tail = r.stdout.strip().splitlines()[-3:]
        print('tests with change:', ' | '.join(tail))
        if r.returncode != 0:
            print('NOT CONFIRMED: the change breaks the existing test-suite')
            return 1
    finally:
        shutil.rmtree(base, ignore_errors=True)
    d = os.path.join(ROOT, 'seeded', ident)
    os.makedirs(d, exist_ok=True)
    shutil.copy(patch, os.path.join(d, 'patch.diff'))
    shutil.copy(demo, os.path.join(d, 'demo.py'))
    meta_out = {
        'id': ident, 'property': meta.get('property'), 'summary': meta.get('summary'), 'needs': meta.get('needs'),
        'author': 'independent sub-agent given only the property text and a scratch worktree',
        'confirmed': {
            'demo_unchanged': 'rc=%d %s' % (rc0, out0.strip()[-160:]),
            'demo_changed': 'rc=%d %s' % (rc1, out1.strip()[-240:]),
            'tests_with_change': 'tools/repo_tests.py source (pure-Python scratch copy with the patch): ' + ' | '.join(tail),
        },
    }
    json.dump(meta_out, open(os.path.join(d, 'meta.json'), 'w'), indent=1)
    print('stored', d)
    return 0


def evaluate(ident, tier='quick'):
    d = os.path.join(ROOT, 'seeded', ident)
    meta = json.load(open(os.path.join(d, 'meta.json')))
    prop = meta['property']
    base = scratch()
    try:
        apply(base, os.path.join(d, 'patch.diff'))
        t0 = time.time()
        r = subprocess.run([os.path.join(ROOT, 'check'), prop, tier], env=dict(os.environ, VERIF_REPO=base), capture_output=True, text=True)
        wall = time.time() - t0
    finally:
        shutil.rmtree(base, ignore_errors=True)
        rd = os.path.join(ROOT, 'replays', prop)
        if os.path.isdir(rd):
            for fn in os.listdir(rd):
                if not fn.startswith('fixed-'):
                    os.unlink(os.path.join(rd, fn))
    line = [l for l in r.stdout.splitlines() if l.startswith('  suite=')]
    res = {'tier': tier, 'exit': r.returncode, 'wall_s': round(wall, 1),
           'detected': r.returncode == 1, 'first_violation': line[0].strip()[:400] if line else None,
           'summary_line': r.stdout.strip().splitlines()[-1][:200] if r.stdout.strip() else ''}
    seed = os.environ.get('VERIF_SEED', '1') or '1'
    key = tier if seed == '1' else '%s@seed%s' % (tier, seed)
    meta.setdefault('evaluation', {})[key] = res
    # a change written against one property may be caught by the check of a related property
    for other in meta.get('related', []):
        base2 = scratch()
        try:
            apply(base2, os.path.join(d, 'patch.diff'))
            r2 = subprocess.run([os.path.join(ROOT, 'check'), other, tier], env=dict(os.environ, VERIF_REPO=base2), capture_output=True, text=True)
        finally:
            shutil.rmtree(base2, ignore_errors=True)
            rd2 = os.path.join(ROOT, 'replays', other)
            if os.path.isdir(rd2):
                for fn in os.listdir(rd2):
                    if not fn.startswith('fixed-'):
                        os.unlink(os.path.join(rd2, fn))
        l2 = [l for l in r2.stdout.splitlines() if l.startswith('  suite=')]
        meta['evaluation']['%s via %s' % (tier, other)] = {'exit': r2.returncode, 'detected': r2.returncode == 1,
                                                           'first_violation': l2[0].strip()[:300] if l2 else None}
        print('   related check %s: exit=%d %s' % (other, r2.returncode, l2[0].strip()[:150] if l2 else ''))
    json.dump(meta, open(os.path.join(d, 'meta.json'), 'w'), indent=1)
    print('%-10s %-4s %-8s exit=%d %5.0fs %s' % (ident, prop, tier, r.returncode, wall, (line[0].strip()[:170] if line else res['summary_line'])))
    return res


def main():
    cmd = sys.argv[1]
    if cmd == 'confirm':
        sys.exit(confirm(sys.argv[2], sys.argv[3], sys.argv[4]))
    if cmd == 'eval':
        evaluate(sys.argv[2], sys.argv[3] if len(sys.argv) > 3 else 'quick')
    if cmd == 'evalall':
        tier = sys.argv[2] if len(sys.argv) > 2 else 'quick'
        start = sys.argv[3] if len(sys.argv) > 3 else ''
        for ident in sorted(os.listdir(os.path.join(ROOT, 'seeded'))):
            if ident < start:
                continue
            if os.path.exists(os.path.join(ROOT, 'seeded', ident, 'meta.json')):
                try:
                    evaluate(ident, tier)
                except PatchError as e:
                    print('%-10s PATCH DOES NOT APPLY to the current tree: %s' % (ident, str(e)[:200]))


main()
