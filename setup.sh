#!/bin/sh
# Offline setup: make hypothesis (and optional jsonschema/atheris) importable for /venv/bin/python.
cd "$(dirname "$0")" || exit 1
PY=${VERIF_PYTHON:-/venv/bin/python}
mkdir -p .deps evidence replays
for m in hypothesis jsonschema atheris; do
  if ! PYTHONPATH="$PWD/.deps" "$PY" -c "import $m" 2>/dev/null; then
    "$PY" -m pip install --no-index --find-links /opt/veriftools/wheels --target .deps --quiet "$m" 2>/dev/null \
      || echo "setup: optional module $m not installed"
  fi
done
PYTHONPATH="$PWD/.deps" "$PY" -c "import hypothesis; print('hypothesis', hypothesis.__version__)" || exit 1
exit 0
